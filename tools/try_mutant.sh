#!/bin/bash
# usage: tools/try_mutant.sh <patch.diff> <demo.py> <PROP> [more PROPs...]
# 1. confirms in a scratch worktree that the test suite passes with the patch, the demo fails with it and passes without it
# 2. applies the patch to /repo, runs the quick check(s), reverts /repo
patch=$(readlink -f "$1"); demo=$(readlink -f "$2"); shift 2
wt=/tmp/mv_$$
git -C /repo worktree add -q $wt HEAD || exit 9
cd $wt
/venv/bin/python $demo >/dev/null 2>&1; d0=$?
git apply $patch || { echo "PATCH DOES NOT APPLY"; cd /; git -C /repo worktree remove --force $wt; exit 9; }
/venv/bin/python -m pytest -q -p no:cacheprovider -n 8 >/dev/null 2>&1; t=$?
/venv/bin/python $demo >/dev/null 2>&1; d1=$?
cd /; git -C /repo worktree remove --force $wt
echo "confirm: demo_without=$d0 (want 0) tests_with=$t (want 0) demo_with=$d1 (want !=0)"
if [ $d0 -ne 0 ] || [ $t -ne 0 ] || [ $d1 -eq 0 ]; then echo "MUTANT NOT CONFIRMED"; exit 8; fi
git -C /repo apply $patch || exit 9
cd /verif
for p in "$@"; do
  out=$(./vf check $p --tier ${TIER:-quick} 2>&1); rc=$?
  echo "check $p rc=$rc"; echo "$out" | grep -E "VIOLATION|violation|HARNESS|KNOWN|quick:|thorough:" | head -8
done
git -C /repo checkout -- .
git -C /repo status --short | head -3
