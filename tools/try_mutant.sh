#!/bin/bash
# usage: tools/try_mutant.sh <patch.diff> <demo.py> <PROP> [more PROPs...]
# Confirms in a scratch worktree that the test suite passes with the patch, the demo fails with it and passes without it; then runs
# the quick check(s) against that worktree (VF_REPO) with evidence redirected, so /repo and /verif/evidence stay untouched.
patch=$(readlink -f "$1"); demo=$(readlink -f "$2"); shift 2
wt=/tmp/mv_$$
git -C /repo worktree add -q $wt HEAD || exit 9
cd $wt
/venv/bin/python $demo >/dev/null 2>&1; d0=$?
git apply $patch || { echo "PATCH DOES NOT APPLY"; cd /; git -C /repo worktree remove --force $wt; exit 9; }
/venv/bin/python -m pytest -q -p no:cacheprovider -n 6 >/dev/null 2>&1; t=$?
/venv/bin/python $demo >/dev/null 2>&1; d1=$?
echo "confirm: demo_without=$d0 (want 0) tests_with=$t (want 0) demo_with=$d1 (want !=0)"
if [ $d0 -ne 0 ] || [ $t -ne 0 ] || [ $d1 -eq 0 ]; then echo "MUTANT NOT CONFIRMED"; cd /; git -C /repo worktree remove --force $wt; exit 8; fi
cd /verif
mkdir -p $wt.ev
for p in "$@"; do
  out=$(VF_REPO=$wt VF_EVIDENCE_DIR=$wt.ev ./vf check $p --tier ${TIER:-quick} 2>&1); rc=$?
  echo "check $p rc=$rc"; echo "$out" | grep -E "VIOLATION|violation|HARNESS|KNOWN|quick:|thorough:" | cut -c1-400 | head -6
done
cd /; git -C /repo worktree remove --force $wt; rm -rf $wt.ev
