#!/bin/bash
# Regression over the seeded changes: for each seeded/<id>, confirm it in a scratch worktree and run the quick check of its property
# against the patched worktree. Prints one summary line per seeded change. usage: tools/run_seeded.sh [id ...]
cd /verif
ids=${@:-$(ls seeded)}
for id in $ids; do
  prop=$(python3 -c "import json;print(json.load(open('seeded/$id/meta.json'))['property'])")
  out=$(tools/try_mutant.sh seeded/$id/patch.diff seeded/$id/demo.py $prop 2>&1)
  conf=$(echo "$out" | grep -E "^confirm:|NOT CONFIRMED|DOES NOT APPLY" | tr '\n' ' ')
  rc=$(echo "$out" | grep -oE "check $prop rc=[0-9]+" | head -1)
  v=$(echo "$out" | grep -E "^  violation" | head -1 | cut -c1-160)
  echo "$id :: $conf :: $rc :: $v"
done
