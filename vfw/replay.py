"""Native replay of one harness call (no CrossHair).  usage: python -m vfw.replay <module> <func> <args.json> <out.json>"""
import importlib
import json
import os
import sys
import traceback


def main():
    modname, funcname, args_json, out = sys.argv[1:5]
    os.environ['VF_NATIVE'] = '1'
    res = {'ok': None}
    try:
        history = []
        if args_json.startswith('@'):
            with open(args_json[1:]) as f:
                doc = json.load(f)
            args, history = doc['args'], doc.get('history', [])
        else:
            args = json.loads(args_json)
        if funcname == '__setup__':
            try:
                importlib.import_module(modname)
                res['ok'] = True
            except Exception as e:
                tb = traceback.extract_tb(e.__traceback__)
                res['ok'] = False
                res['in_lark'] = bool(tb) and (os.sep + 'lark' + os.sep) in tb[-1].filename and 'vfw' not in tb[-1].filename
                res['exc'] = ''.join(traceback.format_exception(type(e), e, e.__traceback__))[-3000:]
                res['rec'] = {'why': 'setting up the parsers of this slice raised %s inside lark: %s' % (type(e).__name__, str(e)[:200]),
                              'fkey': 'setup:%s:%s' % (type(e).__name__, tb[-1].name if tb else '?')}
            with open(out, 'w') as f:
                json.dump(res, f, default=repr)
            return
        mod = importlib.import_module(modname)
        from vfw import hs
        fn = getattr(mod, funcname)
        for h in history:
            # earlier calls on the same objects, in the order the worker made them (history-dependent defects)
            try:
                fn(*h)
            except Exception:
                pass
        try:
            ok = fn(*args)
            res['ok'] = bool(ok)
        except Exception as e:
            res['ok'] = False
            res['exc'] = ''.join(traceback.format_exception(type(e), e, e.__traceback__))[-3000:]
            tb = traceback.extract_tb(e.__traceback__)
            # an exception raised by harness code itself (last frame under vfw/) is a harness error, not a property violation
            res['exc_in_harness'] = bool(tb) and (os.sep + 'vfw' + os.sep) in tb[-1].filename
        res['rec'] = hs.LOG[-1] if hs.LOG else None
    except BaseException as e:
        res['error'] = ''.join(traceback.format_exception(type(e), e, e.__traceback__))[-3000:]
    with open(out, 'w') as f:
        json.dump(res, f, default=repr)


if __name__ == '__main__':
    main()
