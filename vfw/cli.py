import argparse
import os
import sys


def main():
    ap = argparse.ArgumentParser(prog='vf')
    sub = ap.add_subparsers(dest='cmd', required=True)
    sub.add_parser('setup')
    c = sub.add_parser('check')
    c.add_argument('prop')
    c.add_argument('--tier', default=os.environ.get('VERIF_TIER', 'quick'), choices=['quick', 'thorough'])
    r = sub.add_parser('replay')
    r.add_argument('path')
    a = ap.parse_args()
    from . import env
    if a.cmd == 'setup':
        print(env.ensure(verbose=True))
        return 0
    if os.environ.get('VF_REPO'):
        sys.path.insert(0, os.environ['VF_REPO'])
    from . import runner
    if a.cmd == 'check':
        try:
            seed = int(os.environ.get('VERIF_SEED', '0') or 0)
        except ValueError:
            seed = 0
        return runner.check(a.prop.upper(), a.tier, seed)
    if a.cmd == 'replay':
        return runner.replay_file(a.path)


if __name__ == '__main__':
    sys.exit(main())
