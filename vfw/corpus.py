"""Grammar corpus in the DSL (refsem.gdsl). Token-level grammars declare their terminals (%declare) and are driven through the
list lexer; text-level grammars define terminals with patterns.

Every entry: dict(g=Grammar, names=[token kinds offered to the list lexer], tags=set(...)).
tags: 'cyclic' (some non-terminal derives itself), 'ambiguous', 'lalr' (LALR(1) without conflicts), 'sr' (shift/reduce conflicts
only), 'rr' (reduce/reduce conflict: LALR construction must fail), 'cnf_ok' (no epsilon rules: usable with CYK),
'shaping' (uses tree-shaping features), 'unamb' (unambiguous)."""
from .refsem.gdsl import *   # noqa: F401,F403

TOK = {}


def _tok(name, rules, names, tags, declare=None):
    declare = declare if declare is not None else [n for n in names]
    TOK[name] = dict(g=Grammar(rules, declare=declare, name=name), names=names, tags=set(tags))


A, B, C, D = T('A'), T('B'), T('C'), T('D')

_tok('lrec', [Rule('start', [[N('start'), A], [B]])], ['A', 'B'], {'lalr', 'unamb', 'cnf_ok'})
_tok('rrec', [Rule('start', [[A, N('start')], [B]])], ['A', 'B'], {'lalr', 'unamb', 'cnf_ok'})
_tok('mid', [Rule('start', [[A, N('start'), B], [C]])], ['A', 'B', 'C'], {'lalr', 'unamb', 'cnf_ok'})
_tok('nullstart', [Rule('start', [[], [A, N('start')]])], ['A', 'B'], {'lalr', 'unamb'})
_tok('nullchain', [Rule('start', [[N('a'), N('b'), N('c')]]),
                   Rule('a', [[A], []]), Rule('b', [[B], []]), Rule('c', [[C], []])], ['A', 'B', 'C'], {'lalr', 'unamb'})
_tok('hidden_lrec', [Rule('start', [[N('n'), N('start'), A], [B]]), Rule('n', [[]])], ['A', 'B'], {'unamb'})
_tok('unitcycle', [Rule('start', [[N('start')], [A]])], ['A', 'B'], {'cyclic', 'ambiguous'})
_tok('cycle2', [Rule('start', [[N('b')], [A]]), Rule('b', [[N('start')], [B]])], ['A', 'B'], {'cyclic', 'ambiguous'})
_tok('ss', [Rule('start', [[N('start'), N('start')], [A], []])], ['A', 'B'], {'cyclic', 'ambiguous'})
_tok('expr', [Rule('start', [[N('e')]]), Rule('e', [[N('e'), T('P'), N('e')], [T('X')]])], ['P', 'X'], {'ambiguous', 'sr', 'cnf_ok'})
_tok('nullmid', [Rule('start', [[A, N('n'), B]]), Rule('n', [[], [C]])], ['A', 'B', 'C'], {'lalr', 'unamb'})
_tok('ebnf', [Rule('start', [[Opt(A), Star(B), Plus(C), Opt(Rep(D, 2, 3))]])], ['A', 'B', 'C', 'D'], {'lalr', 'unamb'})
_tok('dangling', [Rule('start', [[N('s')]]),
                  Rule('s', [[T('I'), N('s')], [T('I'), N('s'), T('E'), N('s')], [T('X')]])], ['I', 'E', 'X'], {'ambiguous', 'sr', 'cnf_ok'})
_tok('nullamb', [Rule('start', [[N('a'), N('a')]]), Rule('a', [[A], []])], ['A', 'B'], {'ambiguous'})
_tok('lalr_not_slr', [Rule('start', [[N('l'), T('EQ'), N('r')], [N('r')]]),
                      Rule('l', [[T('STAR'), N('r')], [T('ID')]]),
                      Rule('r', [[N('l')]])], ['EQ', 'STAR', 'ID'], {'lalr', 'unamb', 'cnf_ok'})
_tok('lr1_not_lalr', [Rule('start', [[A, N('e'), C], [A, N('f'), D], [B, N('f'), C], [B, N('e'), D]]),
                      Rule('e', [[T('X')]]), Rule('f', [[T('X')]])], ['A', 'B', 'C', 'D', 'X'], {'rr', 'unamb', 'cnf_ok'})
_tok('rr_prio', [Rule('start', [[N('e'), A], [N('f'), A]]),
                 Rule('e', [[T('X')]], priority=2), Rule('f', [[T('X')]], priority=1)], ['A', 'X'], {'ambiguous', 'lalr_prio'})
_tok('nullable_suffix', [Rule('start', [[A, N('o'), N('p')]]), Rule('o', [[B], []]), Rule('p', [[C], []])],
     ['A', 'B', 'C'], {'lalr', 'unamb'})
_tok('list_sep', [Rule('start', [[N('item'), Star(Grp([T('S'), N('item')]))]]), Rule('item', [[A], [B, N('start'), C]])],
     ['A', 'B', 'C', 'S'], {'lalr', 'unamb'})

# shaping-feature grammars (unambiguous): ?, !, _, aliases, [..], literals, *, +, ~, groups
_tok('shape1', [
    Rule('start', [[N('e')]]),
    Rule('?e', [[N('e'), T('P'), N('t')], [N('t')]]),
    Rule('?t', [[T('X')], [L('a'), N('e'), L('b')], Alt([T('Y'), Maybe(T('X'))], alias='yy'), [N('_i')]]),
    Rule('_i', [[T('Z'), Star(T('X'))]]),
], ['P', 'X', 'Y', 'Z', 'A', 'B'], {'lalr', 'unamb', 'shaping'}, declare=['P', 'X', 'Y', 'Z'])
_tok('shape2', [
    Rule('start', [[N('k'), Maybe(T('X'), N('w')), N('m')]]),
    Rule('!k', [[L('a'), T('_U'), Opt(L('b'))]]),
    Rule('w', [[T('_U'), L('b')], Alt([T('Y')], alias='wy')]),
    Rule('?m', [[Rep(T('Y'), 1, 2)], [T('_U'), T('_U')]]),
], ['A', 'B', 'X', 'Y', '_U'], {'lalr', 'unamb', 'shaping'}, declare=['X', 'Y', '_U'])
_tok('shape3', [
    Rule('start', [[Maybe([A], [B, C]), N('_in'), Maybe(N('_in'))]]),
    Rule('_in', [[T('D'), Maybe(A)]]),
], ['A', 'B', 'C', 'D'], {'unamb', 'shaping'})
_tok('shape4', [
    Rule('start', [[Plus(Grp([N('p')], [N('q')]))]]),
    Rule('?p', [[A, Opt(N('q'))], Alt([B], alias='pb')]),
    Rule('?q', [[C, T('_D')], [L('d')]]),
], ['A', 'B', 'C', '_D', 'D'], {'unamb', 'shaping'}, declare=['A', 'B', 'C', '_D'])


# the same repeated expression in a keep-all rule and in an ordinary rule (helper rules must not leak the ! of another rule)
_tok('shape5', [
    Rule('start', [[N('a'), T('S'), N('b')], [N('c')]]),
    Rule('!a', [[Plus(L('x'))]]),
    Rule('b', [[Plus(L('x')), T('Z')], [Star(L('y')), T('S')]]),
    Rule('!c', [[T('Z'), Star(L('y')), Rep(L('x'), 2, 3)]]),
], ['X', 'Y', 'S', 'Z'], {'unamb', 'shaping'}, declare=['S', 'Z'])
_tok('shape6', [
    Rule('start', [[N('p'), N('q')]]),
    Rule('p', [[L('x'), Opt(L('y')), Maybe(L('x'), T('S'))]]),
    Rule('!q', [[L('x'), Opt(L('y')), Maybe(L('x'), T('S'))]]),
], ['X', 'Y', 'S'], {'unamb', 'shaping'}, declare=['S'])

# nullable symbols met repeatedly in one Earley column, completions that have to propagate through unit rules
_tok('nullnest', [Rule('start', [[N('e'), N('b'), A]]), Rule('b', [[N('e')]]), Rule('e', [[]])], ['A', 'B'], {'unamb'})
_tok('nullnest2', [Rule('start', [[N('m'), N('m'), Opt(B)]]), Rule('m', [[N('e'), N('e')], [A]]), Rule('e', [[], [N('f')]]), Rule('f', [[B, B]])],
     ['A', 'B'], {'ambiguous'})

# an `includes` cycle of three members with look-aheads entering at different members (digraph / SCC handling)
_tok('rrec3', [Rule('start', [[N('a'), T('W')], [N('b'), T('V')], [N('c'), T('U')]]),
               Rule('a', [[T('X'), N('b')], [T('N')]]), Rule('b', [[T('Y'), N('c')], [T('N')]]), Rule('c', [[T('Z'), N('a')], [T('N')]])],
     ['X', 'Y', 'Z', 'N', 'W', 'V', 'U'], {'lalr', 'unamb', 'cnf_ok'})
# a completed item shared by a context where the input may end and one where it may not ($END among merged look-aheads)
_tok('endmerge', [Rule('start', [[A, N('e'), C], [B, N('e')]]), Rule('e', [[T('X')]])], ['A', 'B', 'C', 'X'], {'lalr', 'unamb', 'cnf_ok'})

# ambiguity through inlined / conditionally inlined rules and through intermediate nodes
_tok('amb_inl', [Rule('start', [[N('a'), N('a')]]), Rule('?a', [[N('_b')], [N('c')]]), Rule('_b', [[A], [A, A]]), Rule('c', [[A]])],
     ['A', 'B'], {'ambiguous', 'amb'})
_tok('amb_mid', [Rule('start', [[N('x'), N('x'), N('x')]]), Rule('x', [[A], [A, A]])], ['A', 'B'], {'ambiguous', 'amb', 'cnf_ok'})
_tok('amb_exp1', [Rule('start', [[N('e')]]), Rule('?e', [[N('e'), T('P'), N('e')], [T('X')], [N('_p')]]), Rule('_p', [[T('X'), T('P'), T('X')]])],
     ['P', 'X'], {'ambiguous', 'amb'})
_tok('amb_alias', [Rule('start', [[N('s'), N('s')], [N('s')]]), Rule('s', [Alt([A], alias='one'), Alt([A, A], alias='two'), [A, A, A]])],
     ['A', 'B'], {'ambiguous', 'amb'})
# an inlined rule with an ambiguous split among its first symbols AND an ambiguous inlined child, itself inlined into its parent
_tok('amb_nested_inl', [Rule('start', [[N('_c')]]), Rule('_c', [[N('p'), N('q'), N('_e')]]), Rule('p', [[A, Opt(B)]]), Rule('q', [[Opt(B), C]]),
                        Rule('_e', [[N('f')], [N('g')]]), Rule('f', [[D]]), Rule('g', [[D]])], ['A', 'B', 'C', 'D'], {'ambiguous', 'amb'})
_tok('amb_nested_inl2', [Rule('start', [[N('_c'), N('_c')]]), Rule('_c', [[N('x'), N('x'), N('_e')]]), Rule('x', [[A], [A, A]]),
                         Rule('_e', [[N('f')], [N('g')], []]), Rule('f', [[B]]), Rule('g', [[B]])], ['A', 'B'], {'ambiguous', 'amb'})
_tok('amb_null', [Rule('start', [[N('o'), A, N('o')]]), Rule('o', [[], [A], [N('o'), N('o2')]]), Rule('o2', [[B]])], ['A', 'B'], {'ambiguous', 'amb'})


# two derivations share one inlined subtree that is the first kept child of each (the tree builder must not extend its list in place)
_tok('amb_shared_inl', [Rule('start', [[N('a')], [N('b')]]), Rule('a', [[N('_x'), C]]), Rule('b', [[N('_x'), C]]), Rule('_x', [[A, B], [A]])],
     ['A', 'B', 'C'], {'ambiguous', 'amb'})

# a rule of four symbols whose ambiguity lies among the first ones: the ambiguous intermediate node is nested below unambiguous ones
_tok('amb4', [Rule('start', [[N('a'), N('b'), B, B]]), Rule('a', [[A], [A, A]]), Rule('b', [[A], [A, A]])], ['A', 'B'], {'ambiguous', 'amb', 'cnf_ok'})
_tok('amb4n', [Rule('start', [[N('a'), N('b'), B, C]]), Rule('a', [[A], []]), Rule('b', [[A], []])], ['A', 'B', 'C'], {'ambiguous', 'amb'})

# two alternatives of three symbols whose names, joined by '_', read the same (a_b c d / a b_c d): generated helper names must not collide
_tok('undersc', [Rule('start', [Alt([N('a_b'), N('c'), N('d')], alias='first'), Alt([N('a'), N('b_c'), N('d')], alias='second')]),
                 Rule('a_b', [[A]]), Rule('c', [[B]]), Rule('d', [[C]]), Rule('a', [[D]]), Rule('b_c', [[T('E')]])],
     ['A', 'B', 'C', 'D', 'E'], {'lalr', 'unamb', 'cnf_ok'})

# a group with alternatives under ~n: every occurrence chooses its alternative independently
_tok('repalt', [Rule('start', [[Rep(Grp([A], [B]), 2, 2), C]])], ['A', 'B', 'C'], {'lalr', 'unamb'})

# a ranged repeat with lower bound 0 above lark's REPEAT_BREAK_THRESHOLD (factored into helper rules by small_factors)
_tok('rep0big', [Rule('start', [[Rep(A, 0, 51), B]])], ['A', 'B'], {'lalr', 'unamb'})


def tok_names(tag=None, exclude=()):
    return [k for k, v in TOK.items() if (tag is None or tag in v['tags']) and not (set(exclude) & v['tags'])]


# ---------------------------------------------------------------------------------------------------------------------
# Text-level grammars: dict(g=Grammar, tags). Terminals carry patterns; the alphabet partition is derived from the built parser.
TXT = {}


def _txt(name, rules, terms, ignore=(), tags=()):
    TXT[name] = dict(g=Grammar(rules, terms=terms, ignore=ignore, name=name), tags=set(tags))


# words, numbers, newlines (filtered), brackets, comments: positions with newlines inside kept, filtered and ignored terminals
_txt('lines', [
    Rule('start', [[Star(Grp([N('item')], [T('_NL')]))]]),
    Rule('?item', [[T('WORD')], [T('NUM')], [N('grp')]]),
    Rule('grp', [[L('('), Star(Grp([N('item')], [T('_NL')])), L(')')]]),
], [Term('WORD', ('re', '[a-z]+')), Term('NUM', ('re', '[0-9]+')), Term('_NL', ('re', r'\n+')),
    Term('WS', ('re', r'[ \t]+')), Term('COMMENT', ('re', r'#[^\n]*'))], ignore=['WS', 'COMMENT'], tags={'lalr', 'unamb', 'nl'})

# newline reached through \W, \D, \s, ranges, negated class, DOTALL flag - inside kept and ignored terminals
_txt('nlvia', [
    Rule('start', [[Star(N('x'))]]),
    Rule('x', [[T('AW')], [T('DD')], [T('ID')], [T('Q')]]),
], [Term('AW', ('re', r'a\W')), Term('DD', ('re', r'\D[0-9]')), Term('ID', ('re', r'[b-z]+')),
    Term('Q', ('re', r'"[^"]*"')), Term('CTL', ('re', r'[\x00-\x20]+'))], ignore=['CTL'], tags={'lalr', 'unamb', 'nl'})

_txt('dotall', [
    Rule('start', [[Star(Grp([T('ANY2')], [T('W')], [N('p')]))]]),
    Rule('p', [[L('<'), Opt(T('W')), L('>')]]),
], [Term('ANY2', ('re', r'=.'), flags='s'), Term('W', ('re', r'[a-z]+')), Term('SP', ('re', r'\s'))], ignore=['SP'], tags={'lalr', 'unamb', 'nl'})

# keyword vs identifier, priorities, case-insensitive literal
_txt('kw', [
    Rule('start', [[Star(N('s'))]]),
    Rule('s', [[L('if'), T('NAME')], [T('NAME'), L('=')], [T('ELSE')], [T('INT')]]),
], [Term('NAME', ('re', '[a-z]+')), Term('ELSE', ('str', 'else'), flags='i'), Term('INT', ('re', '[0-9]+')),
    Term('WS', ('re', r'[ \n]+'))], ignore=['WS'], tags={'lalr', 'kw'})

# two ignored terminals that match at the same position with different ends (only the longer one leads on)
_txt('ign2', [
    Rule('start', [[Plus(T('WORD'))]]),
], [Term('WORD', ('re', '[a-z]+')), Term('SP', ' '), Term('CONT', ' #'), Term('NLS', ('re', r'\n+'))], ignore=['SP', 'CONT', 'NLS'], tags={'dyn'})

# a terminal with an optional tail: dynamic_complete re-matches every truncation of the longest match
_txt('opttail', [
    Rule('start', [[T('A'), T('B')], [T('A')]]),
], [Term('A', ('re', 'a(bc)?')), Term('B', 'bc'), Term('IGN', 'cx')], ignore=['IGN'], tags={'ambiguous', 'dyn'})

# colliding terminals: resolved dynamically by the Earley lexers
_txt('collide', [
    Rule('start', [[Plus(N('x'))]]),
    Rule('x', [[T('AB')], [T('A')], [T('B')], [T('C')]]),
], [Term('A', 'a'), Term('B', 'b'), Term('AB', 'ab'), Term('C', ('re', 'c+'))], tags={'ambiguous', 'dyn'})

_txt('letx', [
    Rule('start', [[Plus(N('s'))]]),
    Rule('s', [[T('KW'), T('NAME')], [T('NAME'), L('='), T('NUM')]]),
], [Term('KW', 'let'), Term('NAME', ('re', '[a-z]+')), Term('NUM', ('re', '[0-9]+')), Term('WS', ('re', ' +'))], ignore=['WS'], tags={'dyn'})

_txt('nulltxt', [
    Rule('start', [[N('a'), N('b'), Opt(T('END'))]]),
    Rule('a', [[Opt(L('x'))]]),
    Rule('b', [[Star(T('Y'))], [T('Y'), L('x')]]),
], [Term('Y', ('re', 'y+')), Term('END', ('re', r'zz|z')), Term('SP', ' ')], ignore=['SP'], tags={'ambiguous', 'dyn'})

# a raw regexp whose preferred (first-alternative) match is not its longest one: recorded finding for the dynamic lexers
_txt('prefalt', [
    Rule('start', [[Opt(L('x')), Opt(T('END'))]]),
], [Term('END', ('re', r'z|zz'))], tags={'dyn', 'finding'})

# one-symbol alternatives of a ?rule that do not hand a child through: a filtered token, an inlined rule with 0 or >= 2 children
_txt('meta1', [
    Rule('start', [[Plus(N('item'))]]),
    Rule('?item', [[L('@')], [N('_pair')], [T('NAME')]]),
    Rule('_pair', [[L('<'), Star(T('NAME')), L('>')]]),
], [Term('NAME', ('re', '[a-z]')), Term('WS', ('re', r'[ \n]+'))], ignore=['WS'], tags={'lalr', 'unamb', 'nl'})

# a repeated multi-character item inside a terminal: the possible match lengths have gaps (2, 4), and the next terminal could
# consume a left-over fragment
_txt('reptok', [
    Rule('start', [[T('T'), T('X')]]),
], [Term('T', ('re', '(?:ab){1,2}'), src='"ab"~1..2'), Term('X', 'b')], tags={'dyn'})

# two alternatives of the start rule cover the same span; ignored text may follow (the completed start item is carried over it)
_txt('twostart', [
    Rule('start', [Alt([T('A')], alias='first'), Alt([T('B')], alias='second')]),
], [Term('A', 'a'), Term('B', ('re', 'a')), Term('SP', ' ')], ignore=['SP'], tags={'ambiguous', 'dyn'})

# a rule that nothing refers to, with a terminal of its own that overlaps the live terminals: neither takes part
_txt('unusedterm', [
    Rule('start', [[L('a'), L('b')], [L('a'), N('start')]]),
    Rule('helper', [[T('WORD')]]),
], [Term('WORD', ('re', '[a-z]+'))], tags={'lalr'})

# a group with alternatives under a fixed repeat (token level twin in TOK: repalt)
# a keyword that the lexer folds into an identifier regexp (same priority); both are acceptable in exactly the same parser states
_txt('kwfold', [
    Rule('start', [[Grp([L('if')], [T('NAME')]), L('!')], [L('?'), L('?')]]),
], [Term('NAME', ('re', '[a-z]+'))], tags={'lalr', 'kw'})

# anonymous literals whose conventional names (PLUS, COMMA) are taken by user terminals with other patterns
_txt('anoncollide', [
    Rule('start', [[Plus(Grp([T('PLUS'), L('+')], [T('COMMA'), L(',')]))]]),
], [Term('PLUS', 'p'), Term('COMMA', ';')], tags={'dyn'})

# a terminal that can itself begin with ignorable text: "skip the ignored text, then match" is a derivation of its own
_txt('ignstart', [
    Rule('start', [[T('A'), N('xs')]]),
    Rule('xs', [[N('x')], [N('xs'), N('x')]]),
    Rule('x', [[T('TB')], [T('B')]]),
], [Term('A', 'a'), Term('TB', ('re', 'xb|x')), Term('B', 'b'), Term('IGN', 'x')], ignore=['IGN'], tags={'ambiguous', 'dyn'})


# ---------------------------------------------------------------------------------------------------------------------
# Terminal sets for the lexer-precedence property (grammar: any sequence of the non-ignored terminals)
LEX = {}


def _lex(name, terms, ignore=(), tags=()):
    used = [t.name for t in terms if t.name not in ignore]
    ignore = list(ignore)
    LEX[name] = dict(g=Grammar([Rule('start', [[Star(Grp(*[[T(n)] for n in used]))]])], terms=terms, ignore=ignore, name=name), tags=set(tags))


_lex('kwid', [Term('NAME', ('re', '[a-z]+')), Term('IF', 'if'), Term('ON', 'on', flags='i'), Term('INT', ('re', '[0-9]+')),
              Term('FLOAT', ('re', r'[0-9]+\.[0-9]+')), Term('DOT', '.'), Term('WS', ('re', ' +'))], ignore=['WS'])
_lex('prio', [Term('A', ('re', 'a+'), priority=2), Term('B', ('re', 'a+b?')), Term('C', 'ab'), Term('D', ('re', '[ab]c')), Term('E', 'abc', priority=1)])
_lex('prio2', [Term('WORD', ('re', '[a-z]+'), priority=2), Term('IF', 'if'), Term('NUM', ('re', '[0-9]+')), Term('X', 'x', priority=3),
               Term('LOW', ('re', '[a-z0-9]+'), priority=-1), Term('EQ', '12', priority=-1)])
# inline %ignore patterns (anonymous terminals with default priority) that overlap terminals which sort first
_lex('ign_inline', [Term('INDENT', ('re', r'\n +')), Term('DASH2', '--'), Term('W', ('re', '[a-z]+'))], ignore=[r'/\s+/', '"-"'])
# a verbose-flag regexp: its source text is longer than what it matches (width must be that of the regexp with its flags)
_lex('xflag', [Term('ABC', ('re', ' a b c '), flags='x'), Term('ABCD', 'abcd'), Term('D', 'd'), Term('AB', 'ab')])
# a case-insensitive keyword next to an identifier regexp that carries another flag (and is not case-insensitive): the keyword is matched
# by the regexp only in lower case, so it must stay a terminal of its own
_lex('ciflag', [Term('ON', 'on', flags='i'), Term('NAME', ('re', '[a-z]+'), flags='s'), Term('SP', ' ')], ignore=['SP'])
_lex('eqw', [Term('X', ('re', '[ab]')), Term('Y', ('re', '[bc]')), Term('Z', 'b'), Term('W', ('re', '[cd][cd]')), Term('V', 'cd')])
_lex('ci', [Term('NAME', ('re', '[a-zA-Z]+')), Term('SEL', 'se', flags='i'), Term('KW', 'Se'), Term('NUM', ('re', '[0-9]')), Term('SP', ' ')], ignore=['SP'])
