"""One CrossHair condition (slice) in one process.  usage: python -m vfw.worker <module> <func> <cond_timeout> <path_timeout> <out.json>"""
import collections
import importlib
import json
import os
import sys
import time
import traceback


def main():
    modname, funcname, ctimeout, ptimeout, out = sys.argv[1:6]
    t0 = time.time()
    res = {'module': modname, 'func': funcname, 'params': json.loads(os.environ.get('VF_PARAMS', '{}')),
           'twin': os.environ.get('VF_TWIN') == '1', 'status': 'error', 'messages': []}
    try:
        from vfw import chx
        chx.configure()
        from crosshair.core import analyze_function
        from crosshair.options import AnalysisOptionSet, AnalysisKind
        from crosshair.statespace import MessageType
        sys.setrecursionlimit(20000)
        try:
            mod = importlib.import_module(modname)
        except Exception as e:
            # building the parsers of the property's corpus is part of what is checked: an exception raised *inside lark* while the
            # harness module sets up is reported as a counterexample candidate (replayed natively by the runner), not as a harness error
            tb = traceback.extract_tb(e.__traceback__)
            in_lark = bool(tb) and (os.sep + 'lark' + os.sep) in tb[-1].filename and 'vfw' not in tb[-1].filename
            res['status'] = 'setup_failed_in_lark' if in_lark else 'error'
            res['error'] = ''.join(traceback.format_exception(type(e), e, e.__traceback__))[-4000:]
            res['exc_type'] = type(e).__name__
            res['wall_s'] = round(time.time() - t0, 3)
            with open(out, 'w') as f:
                json.dump(res, f, default=repr)
            return
        res['import_s'] = round(time.time() - t0, 3)
        fn = getattr(mod, funcname)
        opts = AnalysisOptionSet(per_condition_timeout=float(ctimeout), per_path_timeout=float(ptimeout),
                                 report_all=True, analysis_kind=[AnalysisKind.PEP316])
        checkables = analyze_function(fn, opts)
        if len(checkables) != 1:
            raise RuntimeError('expected exactly one condition on %s.%s, found %d' % (modname, funcname, len(checkables)))
        c = checkables[0]
        if hasattr(c, 'options'):
            c.options.stats = collections.Counter()
        c0 = time.process_time()
        msgs = list(c.analyze())
        res['cpu_s'] = round(time.process_time() - c0, 3)
        res['num_paths'] = int(c.options.stats.get('num_paths', 0)) if hasattr(c, 'options') else 0
        states = []
        for m in msgs:
            res['messages'].append({'state': m.state.name, 'message': m.message, 'line': m.line,
                                    'traceback': (m.traceback or '')[-3000:]})
            states.append(m.state)
        if any(s in (MessageType.POST_FAIL, MessageType.EXEC_ERR, MessageType.POST_ERR) for s in states):
            res['status'] = 'refuted'
        elif any(s == MessageType.SYNTAX_ERR or s == MessageType.IMPORT_ERR for s in states):
            res['status'] = 'error'
        elif any(s == MessageType.PRE_UNSAT for s in states):
            res['status'] = 'pre_unsat'
        elif states and all(s == MessageType.CONFIRMED for s in states):
            res['status'] = 'confirmed'
        else:
            res['status'] = 'not_exhausted'
        from vfw import hs
        log = hs.LOG
        res['paths_logged'] = len(log)
        res['fails'] = hs.FAILS[:5]
        res['known_hits'] = hs.KNOWN_HITS
        res['history'] = hs.HIST[-400:] if res['status'] == 'refuted' else []
        keys = set()
        nontrivial = set()
        for r in log:
            k = r.get('key')
            if k is None:
                continue
            k = json.dumps(k, sort_keys=True)
            keys.add(k)
            if r.get('nontrivial'):
                nontrivial.add(k)
        res['distinct'] = len(keys)
        res['distinct_nontrivial'] = len(nontrivial)
        res['keys_nontrivial'] = sorted(nontrivial)[:int(os.environ.get('VF_KEEP_KEYS', '400'))]
        res['samples'] = [r for r in log if r.get('nontrivial')][-3:]
        agg = collections.Counter()
        for r in log:
            for k, v in (r.get('count') or {}).items():
                agg[k] += v
        res['counts'] = dict(agg)
        if hasattr(mod, 'worker_extra'):
            res['extra'] = mod.worker_extra()
    except BaseException as e:
        res['status'] = 'error'
        res['error'] = ''.join(traceback.format_exception(type(e), e, e.__traceback__))[-4000:]
    res['wall_s'] = round(time.time() - t0, 3)
    with open(out, 'w') as f:
        json.dump(res, f, default=repr)


if __name__ == '__main__':
    main()
