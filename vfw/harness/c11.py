"""C11 - saved, cached and stand-alone parsers behave like the original.

For each configuration (LALR grammar x options) four parsers are prepared when the slice starts: built directly, Lark.load(save()),
served from the cache option (second construction against the same cache file), and the module text produced by the real
lark.tools.standalone.gen_standalone executed in a fresh namespace. CrossHair explores every class-string up to the bound (alphabet
partition of the built parser's terminals) and a symbolic API index {parse, parse_interactive with accepts() after every token, scan};
all four must give the same observable outcome: equal trees including token types, values, positions and tree meta, or the same
error class at the same position. Classes of the stand-alone module are distinct copies, so results are compared structurally.
"""
import io
import os
import re
import shutil
import tempfile
from typing import List

from vfw import hs, corpus, alpha

PROPERTY = 'C11'
P = hs.params()

MAYBE_G = '''
start: stmt+
stmt: "let" NAME ["=" expr] ";" | sep{expr, ","} ";" -> es
?expr: atom | expr "+" atom -> add
atom: NAME | NUM | "(" expr ")" | list
list: "[" sep{expr, ","} "]"
sep{x, s}: x (s x)*
NAME: /[a-z]+/
NUM.2: /[0-9]+/
%import common.WS_INLINE
%ignore WS_INLINE
'''
FLAGS_G = '''
start: (A | B | C | W)+
A: "a"i
B: /[a-z]/s
C: /[0-9.]/
W: "if"i
%ignore " "
'''
MULTI_G = '''
start: item ("," item)*
item: WORD | "<" start ">"
WORD: /[a-z]+/
%ignore " "
'''


def _many_grammar():
    names = ['T%03d' % i for i in range(130)]
    terms = ''.join('%s: "k%03d"\n' % (n, i) for i, n in enumerate(names))
    return 'start: (%s | NAME)*\n%sNAME: /[a-z]+[0-9]*/\n%%ignore " "\n' % (' | '.join(names), terms)


CONFIGS = {
    'lines-ctx-pp': (lambda: corpus.TXT['lines']['g'].render(), dict(lexer='contextual', propagate_positions=True), None),
    'lines-basic-kat': (lambda: corpus.TXT['lines']['g'].render(), dict(lexer='basic', keep_all_tokens=True, propagate_positions=True), None),
    'lines-bytes': (lambda: corpus.TXT['lines']['g'].render(), dict(lexer='contextual', use_bytes=True, propagate_positions=True), None),
    'kw-ctx': (lambda: corpus.TXT['kw']['g'].render(), dict(lexer='contextual'), None),
    'kw-iflag': (lambda: corpus.TXT['kw']['g'].render(), dict(lexer='basic', g_regex_flags=re.I), None),
    'nlvia-ctx': (lambda: corpus.TXT['nlvia']['g'].render(), dict(lexer='contextual', propagate_positions=True), None),
    'maybe-on': (lambda: MAYBE_G, dict(lexer='contextual', maybe_placeholders=True, propagate_positions=True), 'tokens'),
    'maybe-off': (lambda: MAYBE_G, dict(lexer='basic', maybe_placeholders=False), 'tokens'),
    'multi-start': (lambda: MULTI_G, dict(lexer='contextual', start=['start', 'item']), None),
    'many-terminals': (_many_grammar, dict(lexer='contextual'), 'many'),
    # string and regexp terminals with different flag sets (the keyword/unless decision compares flag sets)
    'flags-basic': (lambda: FLAGS_G, dict(lexer='basic'), None),
    'flags-ctx': (lambda: FLAGS_G, dict(lexer='contextual'), None),
}
LEXEMES = {'tokens': ['let', 'x', '=', '7', ';', '+', '(', ')', '[', ']', ',', 'lety'],
           'many': ['k000', 'k098', 'k099', 'k100', 'k101', 'k129', 'kx', ' ', 'k1290']}
APIS = ['parse', 'interactive', 'scan']

if P:
    from lark import Lark
    from lark.tools import standalone

    CFG = P['cfg']
    GSRC, OPTS, DOMAIN = CONFIGS[CFG]
    GSRC = GSRC()
    L = P['L']
    PIN = P.get('pin')
    BYTES = bool(OPTS.get('use_bytes'))
    STARTS = OPTS.get('start') if isinstance(OPTS.get('start'), list) else [None]
    DIRECT = Lark(GSRC, parser='lalr', **OPTS)
    _b = io.BytesIO()
    DIRECT.save(_b)
    _b.seek(0)
    LOADED = Lark.load(_b)
    _scratch = tempfile.mkdtemp(prefix='vf_c11_')
    try:
        _cf = os.path.join(_scratch, 'cache.bin')
        # the same cache path is first used with one option flipped and with each option left out in turn: the configuration under test must not
        # be served either of those parsers
        _flip = dict(OPTS)
        _flip['maybe_placeholders'] = not OPTS.get('maybe_placeholders', True)
        _pre = [_flip] + [{k: v for k, v in OPTS.items() if k != drop} for drop in OPTS if drop not in ('start', 'use_bytes')]
        for _o in _pre:
            Lark(GSRC, parser='lalr', cache=_cf, **_o)
        Lark(GSRC, parser='lalr', cache=_cf, **OPTS)
        assert os.path.exists(_cf)
        import lark.lark as _larkmod
        _n = [0]
        _olg = _larkmod.load_grammar

        def _clg(*a, **k):
            _n[0] += 1
            return _olg(*a, **k)
        _larkmod.load_grammar = _clg
        CACHED = Lark(GSRC, parser='lalr', cache=_cf, **OPTS)
        _larkmod.load_grammar = _olg
        assert _n[0] == 0, 'second construction was expected to be served from the cache'
    finally:
        shutil.rmtree(_scratch, ignore_errors=True)
    _buf = io.StringIO()
    standalone.gen_standalone(DIRECT, out=_buf)
    _ns = {'__name__': 'vf_standalone_%s' % CFG.replace('-', '_')}
    exec(compile(_buf.getvalue(), '<standalone:%s>' % CFG, 'exec'), _ns)
    # an earlier instance created from the same generated module with load-time options must not leak them into later instances
    _ns['Lark_StandAlone'](propagate_positions=not OPTS.get('propagate_positions', False), g_regex_flags=OPTS.get('g_regex_flags', 0) | re.I)
    STANDALONE = _ns['Lark_StandAlone']()
    PARSERS = [('direct', DIRECT), ('load(save())', LOADED), ('cache hit', CACHED), ('standalone', STANDALONE)]
    if DOMAIN is None:
        PART = alpha.partition(alpha.terminal_patterns(DIRECT), universe=range(256) if BYTES else range(0x250), is_bytes=BYTES)
        REPS = PART.reps(hs.SEED)
        K = PART.K
    else:
        LEX = LEXEMES[DOMAIN]
        K = len(LEX)


def worker_extra():
    return {'alphabet_classes': K}


def _deep(t):
    """Structural value of a result from any copy of the Tree/Token classes."""
    if hasattr(t, 'data') and hasattr(t, 'children'):
        mm = getattr(t, '_meta', None)
        m = ()
        if mm is not None:
            m = (bool(getattr(mm, 'empty', True)),) + tuple(getattr(mm, k, None) for k in ('start_pos', 'end_pos', 'line', 'column', 'end_line', 'end_column'))
        return ('tree', str(t.data), m) + tuple(_deep(c) for c in t.children)
    if isinstance(t, (str, bytes)) and hasattr(t, 'type'):
        return ('token', str(t.type), t.value, t.start_pos, t.end_pos, t.line, t.column, t.end_line, t.end_column)
    if isinstance(t, (list, tuple)):
        return tuple(_deep(c) for c in t)
    return t


def _is_unexpected(e):
    return any(c.__name__ == 'UnexpectedInput' for c in type(e).__mro__)


def _err(e):
    return ('error', type(e).__name__, getattr(e, 'pos_in_stream', None), getattr(e, 'line', None), getattr(e, 'column', None))


def _run(p, api, text, start):
    kw = {} if start is None else {'start': start}
    try:
        if api == 'parse':
            return ('tree', _deep(p.parse(text, **kw)))
        if api == 'interactive':
            ip = p.parse_interactive(text, **kw)
            trace = []
            last = None
            for tok in ip.iter_parse():
                trace.append((str(tok.type), tuple(sorted(ip.accepts()))))
                last = tok
            res = ip.feed_eof(last)
            return ('tree', _deep(res), tuple(trace))
        out = []
        for m in p.scan(text, **kw):
            out.append((tuple(m.range), _deep(m.value)))
        return ('matches', tuple(out))
    except Exception as e:
        if _is_unexpected(e):
            return _err(e)
        raise


def _body(rec, cs, api, si):
    api = APIS[hs.sel(api, len(APIS))]
    start = STARTS[hs.sel(si, len(STARTS))]
    if DOMAIN is None:
        text = hs.class_string(cs, REPS, use_bytes=BYTES)
    else:
        text = (' ' if DOMAIN == 'tokens' else '').join(LEX[hs.sel(c, K)] for c in cs)
    with hs.untraced():
        # realised: the text is concrete (re is a C extension) and the four parsers were deserialised when the slice started
        rec['key'] = [text, api, start]
        results = [(name, _run(p, api, text, start)) for name, p in PARSERS]
        ref = results[0][1]
        rec['nontrivial'] = len(text) > 0 and ref[0] != 'error'
        rec['count'] = {'cases': 1, 'accepted': int(ref[0] != 'error')}
        for name, r in results[1:]:
            if r != ref:
                return hs.fail(rec, '%s differs from the directly built parser (%s)' % (name, api), text=repr(text), start=start,
                               direct=repr(ref)[:400], other=repr(r)[:400])
    return True


def check(cs: List[int], api: int, si: int) -> bool:
    """
    pre: len(cs) <= L and (PIN is None or (len(cs) >= 1 and cs[0] == PIN) or (len(cs) == 0 and PIN == 0))
    post: _
    """
    return hs.run_path(_body, (cs, api, si), corner=lambda cs, api, si: len(cs) == L and hs.sel(cs[L - 1], K) == K - 1 and hs.sel(api, 3) == 2)


def plan(tier, seed):
    quick = tier == 'quick'
    Ks = {'lines-ctx-pp': 8, 'lines-basic-kat': 8, 'lines-bytes': 8, 'kw-ctx': 14, 'kw-iflag': 11, 'nlvia-ctx': 8, 'maybe-on': 12, 'maybe-off': 12, 'multi-start': 6,
          'many-terminals': 9, 'flags-basic': 12, 'flags-ctx': 12}
    slices = []
    for cfg, k in Ks.items():
        Lc = (2 if k >= 11 else 3) if quick else (3 if k >= 11 else 4)
        if cfg.startswith('maybe'):
            Lc += 1         # the shortest statement with an unmatched [..] has three lexemes
        n = sum(k ** i for i in range(Lc + 1)) * 3 * (2 if cfg == 'multi-start' else 1)
        pins = [None] if n * 0.045 < (100 if quick else 1500) else list(range(k))
        for pin in pins:
            est = (n if pin is None else n / k) * 0.045
            slices.append({'id': '%s:L%d%s' % (cfg, Lc, '' if pin is None else ':pin%d' % pin), 'mode': 'realised', 'params': {'cfg': cfg, 'L': Lc, 'pin': pin},
                           'timeout': int(est * 3 + 60), 'twin': pin in (None, k - 1), 'bound': {'chars_or_lexemes': Lc, 'classes': k, 'apis': APIS}})
    meta = {
        'rule': 'one path per (class-string or lexeme sequence, API, start symbol); non-trivial = non-empty input the direct parser does not reject',
        'technique': 'CrossHair solver-closed enumeration of inputs and API choices (realised: re and pickle are C extensions); four independently obtained parsers compared structurally',
        'functions_encoded': ['lark.lark.Lark.save/load/_load', 'lark.utils.Serialize/SerializeMemoizer', 'ParseTableBase.serialize/deserialize', 'IntParseTable',
                              '_deserialize_parsing_frontend', 'lark.tools.standalone.gen_standalone/extract_sections', 'Lark cache path', 'ParsingFrontend.parse/parse_interactive/scan'],
        'bounds': {'configurations': list(Ks), 'length': '2-3 (quick) / 3-4 (thorough) characters or lexemes'},
        'outside_bounds': ['longer inputs', 'option combinations outside the configuration list', 'transformer / postlex options'],
        'stubs_and_assumes': ['the stand-alone module is executed in-process in a fresh namespace'],
    }
    return {'slices': slices, 'meta': meta}
