"""C05 - default ambiguity resolution is a priority-optimal, deterministic choice.

 sym  (CrossHair, symbolic priorities): for each (corpus grammar, ambiguous input) pair all rule priorities (and terminal priorities
      under the dynamic lexer) are *unbounded symbolic ints* written into the real Rule.options.priority / TerminalDef.priority;
      the real ForestSumVisitor / PackedNode.sort_key / ForestToParseTree choose a tree; it must be a derivation whose total
      priority is >= that of every derivation (solver decides for all of Z^n along each path).
 load (CrossHair, realised): priorities from a small set written into the grammar text, priority in {normal, invert, None}:
      maximum / minimum / unaffected-by-priorities; exercises the negation/stripping in Lark.__init__.
 det  (sampled, declared outside the solver's quantifier): the chosen trees are identical across PYTHONHASHSEED values, repeated
      calls and fresh instances.
"""
import itertools
import json
import os
import subprocess
import sys
from typing import List

from vfw import hs
from vfw.refsem import cfg, shape
from vfw.refsem.gdsl import Grammar, Rule, Alt, T, N, L, Term, Plus, Opt, Star, Maybe

PROPERTY = 'C05'
P = hs.params()

X, Y, A, B, I, E = T('X'), T('Y'), T('A'), T('B'), T('I'), T('E')

GRAMMARS = {
    # three derivations of "X X" with different rule multisets
    'abc': (Grammar([Rule('start', [[N('a')], [N('b')], [N('c')]]), Rule('a', [[X, X]]), Rule('b', [[X, N('d')]]), Rule('c', [[N('d'), X]]),
                     Rule('d', [[X]])], declare=['X']), ['X'], 3),
    # left- and right-nested lists mixed
    'lr': (Grammar([Rule('start', [[N('n')]]), Rule('n', [[N('l')], [N('m')]]), Rule('l', [[N('n'), X], [X]]), Rule('m', [[X, N('n')], [X]])],
                   declare=['X']), ['X'], 3),
    # dangling else with named alternatives
    'ifelse': (Grammar([Rule('start', [[N('s')]]), Rule('s', [[N('i')], [N('ie')], [X]]), Rule('i', [[I, N('s')]]),
                        Rule('ie', [[I, N('s'), E, N('s')]])], declare=['I', 'E', 'X']), ['I', 'E', 'X'], 5),
    # catalan x labelings
    'ssab': (Grammar([Rule('start', [[N('s')]]), Rule('s', [[N('s'), N('s')], [N('a')], [N('b')]]), Rule('a', [[A]]), Rule('b', [[A]])],
                     declare=['A']), ['A'], 3),
    # prioritised rules with [..] placeholders (each placeholder expansion carries its own options object) and optional items
    'optamb': (Grammar([Rule('start', [[N('a')], [N('b')], [N('c')]]), Rule('a', [[Maybe(X), Y]]), Rule('b', [[Y], [X, Y]]), Rule('c', [[Opt(X), Y]])],
                       declare=['X', 'Y']), ['X', 'Y'], 2),
    # ties on priority and rule order: only the split point differs
    'split': (Grammar([Rule('start', [[N('a'), N('b')]]), Rule('a', [[X], [X, X]]), Rule('b', [[X], [X, X]])], declare=['X']), ['X'], 4),
    'split3': (Grammar([Rule('start', [[N('x'), N('x'), N('x')]]), Rule('x', [[A], [A, A]])], declare=['A']), ['A'], 5),
    # several different non-terminals in leftmost position, tied derivations (prediction order must not decide)
    'leftmost': (Grammar([Rule('start', [[N('t'), N('t'), N('t')], [N('e'), N('t')], [N('u'), N('e')]]), Rule('t', [[X], [X, X]]), Rule('e', [[X, X], [X, X, X]]),
                          Rule('u', [[X]])], declare=['X']), ['X'], 5),
    # reduce/reduce style choice
    'ef': (Grammar([Rule('start', [[N('e'), A], [N('f'), A]]), Rule('e', [[X]]), Rule('f', [[X]])], declare=['A', 'X']), ['A', 'X'], 2),
}
# with directly empty alternatives: soundness + determinism only (the optimum is exact only without them)
GRAMMARS_EMPTY = {
    'nullamb': (Grammar([Rule('start', [[N('a'), N('a')]]), Rule('a', [[A], []])], declare=['A']), ['A'], 2),
    # a directly empty alternative next to a non-empty alternative that can match the empty span: the non-empty one is chosen whatever
    # the priorities are
    'emptyprec': (Grammar([Rule('start', [[N('opt'), X]]), Rule('opt', [[], [N('blank')]]), Rule('blank', [[Star(N('pad'))]]), Rule('pad', [[Y]])],
                          declare=['X', 'Y']), ['X', 'Y'], 2),
    'emptyprec2': (Grammar([Rule('start', [[N('opt'), X, N('opt')]]), Rule('opt', [[N('blank'), N('blank')], []]), Rule('blank', [[], [Y]])],
                           declare=['X', 'Y']), ['X', 'Y'], 2),
}


def _tie_grammars():
    """Grammars without priorities in which many derivations tie, so that the choice rests on lark's internal orders (prediction lists,
    column insertion, packed-node insertion): three hand-written ones with several non-terminals in leftmost position and a fixed
    family of small generated ones (a deterministic generator, not a random sample per run)."""
    X, Y = T('X'), T('Y')
    e, t, a, s = N('expr'), N('term'), N('atom'), N('start')
    out = {
        'tie1': Grammar([Rule('start', [[t, t, t], [e, t]]), Rule('expr', [[Y, t, t], [X]]), Rule('term', [[e, X, e], [t, t], [X]])], declare=['X', 'Y']),
        'tie2': Grammar([Rule('start', [[t, X], [Y]]), Rule('expr', [[t, e], [X]]), Rule('term', [[t, a], [X]]), Rule('atom', [[e], [t, e, a], [X]])], declare=['X', 'Y']),
        'tie3': Grammar([Rule('start', [[e, a, t]]), Rule('expr', [[e, Y, a], [t, X], [Y]]), Rule('term', [[a], [e, t, a], [Y]]), Rule('atom', [[a, a], [Y]])],
                        declare=['X', 'Y']),
    }
    pool = [e, t, a, X, Y]
    state = 12345
    def nxt(n):
        nonlocal state
        state = (state * 1103515245 + 12345) % (1 << 31)
        return (state >> 8) % n
    for k in range(24):
        rules = []
        for name in ('start', 'expr', 'term', 'atom'):
            alts = []
            for _ in range(1 + nxt(2)):
                alt = [pool[nxt(5)] for _ in range(1 + nxt(3))]
                if alt not in alts and alt != [N(name)] and [x.name for x in alt] != [name]:
                    alts.append(alt)
            last = [X] if nxt(2) else [Y]
            if name == 'start':
                last = [e, t] if nxt(2) else [t, a]
            if last not in alts:
                alts.append(last)
            rules.append(Rule(name, alts))
        out['gen%d' % k] = Grammar(rules, declare=['X', 'Y'])
    return out


GRAMMARS_DET = {k: (g, ['X', 'Y'], 4) for k, g in _tie_grammars().items()}

TXT_GRAMMARS = {
    # a terminal that can itself begin with ignorable text: "skip the ignored text first, then match" competes with the direct match
    'ignstart': (Grammar([Rule('start', [[T('A'), Plus(N('x'))]]), Rule('x', [[T('TB')], [T('B')]])],
                         terms=[Term('A', 'a'), Term('TB', ('re', 'xb|x')), Term('B', 'b'), Term('IGN', 'x')], ignore=['IGN']), ['axb', 'axxb', 'axbxb']),
    # colliding terminals under the dynamic lexer: terminal priorities take part
    'collide': (Grammar([Rule('start', [[Plus(N('x'))]]), Rule('x', [[T('AB')], [T('A')], [T('B')]])],
                        terms=[Term('A', 'a'), Term('B', 'b'), Term('AB', 'ab')]), ['ab', 'abab', 'aab', 'abb']),
}

NP = 6      # symbolic priority slots


def _ambiguous_inputs(g, names, maxlen, bnf):
    out = []
    for n in range(1, maxlen + 1):
        for w in itertools.product(names, repeat=n):
            rec = cfg.Recognizer(bnf, cfg.TokenInput(list(w)))
            if rec.member():
                ds = rec.derivations(limit=3000)
                if len(ds) >= 2:
                    out.append(list(w))
    return out


def _rule_counts(d, acc):
    if d[0] == 'n':
        if not d[1].rule.helper:        # helper rules of the reference's EBNF desugaring carry no priority
            acc[d[1].rule.name] = acc.get(d[1].rule.name, 0) + 1
        for c in d[2]:
            _rule_counts(c, acc)
    return acc


def _empty_precedence_ok(d):
    """No user rule in this derivation uses its directly empty alternative although another alternative of it can derive the empty string."""
    if d[0] != 'n':
        return True
    alt = d[1]
    if not alt.syms and not alt.rule.helper:
        for a2 in alt.rule.alts:
            if a2 is not alt and a2.syms and all(s_[0] == 'n' and s_[1] in NULLABLE for s_ in a2.syms):
                return False
    return all(_empty_precedence_ok(c) for c in d[2])


def _term_counts(d, acc):
    if d[0] == 'n':
        for c in d[2]:
            _term_counts(c, acc)
    elif d[0] == 't':
        acc[d[1]] = acc.get(d[1], 0) + 1
    return acc


if P and P.get('kind') == 'sym':
    from lark import Lark
    GNAME = P['g']
    TEXT = GNAME in TXT_GRAMMARS
    EMPTY = GNAME in GRAMMARS_EMPTY
    if TEXT:
        G, INPUTS = TXT_GRAMMARS[GNAME]
        BNF = cfg.BNF(G)
        RX = cfg.text_regexps(G, BNF)
        # non-zero placeholder priorities so that the real parser installs its ForestSumVisitor at construction
        src = G.render().replace('start:', 'start.1:')
        LARK = Lark(src, parser='earley', lexer='dynamic', ambiguity='resolve')
        SLOTS = sorted(r.name for r in G.rules) + sorted(t.name for t in G.terms)
    else:
        G, NAMES, MAXLEN = (GRAMMARS_EMPTY if EMPTY else GRAMMARS)[GNAME]
        BNF = cfg.BNF(G)
        INPUTS = _ambiguous_inputs(G, NAMES, MAXLEN, BNF)
        src = G.render().replace('start:', 'start.1:')
        LARK = Lark(src, parser='earley', lexer=hs.make_list_lexer(NAMES), ambiguity='resolve')
        SLOTS = sorted(r.name for r in G.rules)
    NULLABLE = BNF.nullable()
    assert len(SLOTS) <= NP, SLOTS
    assert INPUTS
    WI = P.get('wi')


def _sym_body(rec, wi, ps):
    wi = hs.pick(wi, 0, len(INPUTS) - 1)
    w = INPUTS[wi]
    prio = {name: ps[k] for k, name in enumerate(SLOTS)}
    for r in LARK.rules:
        r.options.priority = prio.get(r.origin.name, 0)
    if TEXT:
        for t in LARK.terminals:
            t.priority = prio.get(t.name, 0)
    tree = LARK.parse(w if TEXT else [NAMES.index(k) for k in w])
    with hs.untraced():
        got = shape.of_lark(tree)
        inp = cfg.TextInput(w, RX, ignore=G.ignore, mode='longest') if TEXT else cfg.TokenInput(w)
        ds = cfg.Recognizer(BNF, inp).derivations(limit=3000)
        shaped = [shape.shape_root(d, inp) for d in ds]
        rcounts = [_rule_counts(d, {}) for d in ds]
        tcounts = [_term_counts(d, {}) for d in ds] if TEXT else [{} for d in ds]
        cand = [i for i, s in enumerate(shaped) if shape.same(s, got)]
        rec['key'] = [GNAME, w, cand[:1]]
        rec['nontrivial'] = len(ds) >= 2
        rec['count'] = {'derivations': len(ds)}
        if not cand:
            return hs.fail(rec, 'resolved tree is not a derivation of the input', input=w, got=got)
    if EMPTY:
        with hs.untraced():
            if not any(_empty_precedence_ok(ds[i]) for i in cand):
                return hs.fail(rec, 'a directly empty alternative was chosen where a non-empty alternative of the rule matches the same (empty) span', input=w, got=got)
        return True
    # symbolic part: total priorities are linear forms in the symbolic priorities; the solver decides >= for all values on this path
    totals = []
    for rc, tc in zip(rcounts, tcounts):
        tot = 0
        for name, c in rc.items():
            tot = tot + c * prio[name]
        for name, c in tc.items():
            tot = tot + c * prio[name]
        totals.append(tot)
    best = False
    for i in cand:
        this = True
        for t in totals:
            if not (totals[i] >= t):
                this = False
                break
        if this:
            best = True
            break
    if not best:
        return hs.fail(rec, 'resolved tree does not have the maximal total priority', input=w, got=got, slots=SLOTS)
    return True


def sym(wi: int, ps: List[int]) -> bool:
    """
    pre: len(ps) == NP and 0 <= wi < len(INPUTS) and (WI is None or wi == WI)
    post: _
    """
    return hs.run_path(_sym_body, (wi, ps), corner=lambda wi, ps: wi == (len(INPUTS) - 1 if WI is None else WI) and ps[0] > ps[1])


# ---------------------------------------------------------------------------------------------------------------------
PRIO_VALUES = [-1, 0, 2]

if P and P.get('kind') == 'load':
    from lark import Lark
    GNAME = P['g']
    G, NAMES, MAXLEN = GRAMMARS[GNAME]
    BNF0 = cfg.BNF(G)
    INPUTS = _ambiguous_inputs(G, NAMES, MAXLEN, BNF0)
    RULES = [r.name for r in G.rules if r.name != 'start']
    NR = len(RULES)
    NV = len(PRIO_VALUES)
    LEX = hs.make_list_lexer(NAMES)
    BASE = Lark(G.render(), parser='earley', lexer=LEX, ambiguity='resolve', priority=None)


def _load_body(rec, vs, mode):
    mode = hs.pick(mode, 0, 2)
    vals = [PRIO_VALUES[hs.sel(vs[k], NV)] for k in range(NR)]
    with hs.untraced():
        # realised mode: grammar text cannot be symbolic; the solver owns the enumeration of (priority vector, mode)
        rules = []
        for r in G.rules:
            if r.name in RULES:
                rules.append(Rule(r.mods + r.name, r.alts, priority=vals[RULES.index(r.name)]))
            else:
                rules.append(r)
        g2 = Grammar(rules, declare=G.declare)
        pmode = ['normal', 'invert', None][mode]
        lk = Lark(g2.render(), parser='earley', lexer=LEX, ambiguity='resolve', priority=pmode)
        bnf = cfg.BNF(g2)
        rec['key'] = [GNAME, vals, str(pmode)]
        rec['nontrivial'] = True
        rec['count'] = {'grammars': 1, 'inputs': len(INPUTS)}
        for w in INPUTS:
            ix = [NAMES.index(k) for k in w]
            got = shape.of_lark(lk.parse(ix))
            inp = cfg.TokenInput(w)
            ds = cfg.Recognizer(bnf, inp).derivations(limit=3000)
            shaped = [shape.shape_root(d, inp) for d in ds]
            totals = [cfg.priority_of(d) for d in ds]
            cand = [i for i, s in enumerate(shaped) if shape.same(s, got)]
            if not cand:
                return hs.fail(rec, 'resolved tree is not a derivation', input=w, prios=vals, mode=str(pmode))
            if pmode == 'normal' and max(totals[i] for i in cand) != max(totals):
                return hs.fail(rec, 'priority=normal: total priority %s, maximum is %s' % (max(totals[i] for i in cand), max(totals)),
                               input=w, prios=dict(zip(RULES, vals)), got=got)
            if pmode == 'invert' and min(totals[i] for i in cand) != min(totals):
                return hs.fail(rec, 'priority=invert: total priority %s, minimum is %s' % (min(totals[i] for i in cand), min(totals)),
                               input=w, prios=dict(zip(RULES, vals)), got=got)
            if pmode is None:
                base = shape.of_lark(BASE.parse(ix))
                if base != got:
                    return hs.fail(rec, 'priority=None: the choice depends on the priorities written in the grammar', input=w,
                                   prios=dict(zip(RULES, vals)), got=got, without_priorities=base)
    return True


def load(vs: List[int], mode: int) -> bool:
    """
    pre: len(vs) == NR and 0 <= mode <= 2
    post: _
    """
    return hs.run_path(_load_body, (vs, mode), corner=lambda vs, mode: mode == 2 and hs.sel(vs[NR - 1], NV) == NV - 1)


# ---------------------------------------------------------------------------------------------------------------------
_DET_CHILD = r'''
import sys, json, itertools
from vfw.harness import c05
from vfw import hs
from vfw.refsem import cfg, shape
from lark import Lark
out = {}
for gname, (G, names, maxlen) in list(c05.GRAMMARS.items()) + list(c05.GRAMMARS_EMPTY.items()) + list(c05.GRAMMARS_DET.items()):
    for variant, src in (('plain', G.render()), ('prio', c05._with_prios(G).render())):
        lex = hs.make_list_lexer(names)
        lk = Lark(src, parser='earley', lexer=lex, ambiguity='resolve')
        for n in range(1, maxlen + 2):
            for w in itertools.product(range(len(names)), repeat=n):
                try:
                    a = repr(shape.of_lark(lk.parse(list(w))))
                except Exception as e:
                    a = type(e).__name__
                try:
                    b = repr(shape.of_lark(lk.parse(list(w))))
                except Exception as e:
                    b = type(e).__name__
                try:
                    c = repr(shape.of_lark(Lark(src, parser='earley', lexer=lex, ambiguity='resolve').parse(list(w)))) if n <= maxlen else b
                except Exception as e:
                    c = type(e).__name__
                out['%%s:%%s:%%s' %% (gname, variant, w)] = [a, b, c]
for gname, (G, texts) in c05.TXT_GRAMMARS.items():
    for lexer in ('dynamic', 'dynamic_complete'):
        lk = Lark(G.render(), parser='earley', lexer=lexer, ambiguity='resolve')
        for t in texts:
            a = repr(shape.of_lark(lk.parse(t)))
            out['%%s:%%s:%%s' %% (gname, lexer, t)] = [a, repr(shape.of_lark(lk.parse(t))), repr(shape.of_lark(Lark(G.render(), parser='earley', lexer=lexer).parse(t)))]
json.dump(out, sys.stdout)
'''


def _with_prios(G):
    rules = []
    for k, r in enumerate(G.rules):
        rules.append(Rule(r.mods + r.name, r.alts, priority=(k * 7) % 3 - 1) if r.name != 'start' else r)
    return Grammar(rules, declare=G.declare)


def run_lemma(job):
    """det: identical choices across hash seeds, repeated calls and fresh instances (sampled seeds; declared)."""
    seeds = job['seeds']
    root = os.path.dirname(os.path.dirname(os.path.dirname(os.path.abspath(__file__))))
    results = {}
    for s in seeds:
        env = dict(os.environ, PYTHONHASHSEED=str(s))       # PYTHONPATH is inherited (vfw + the lark tree under test)
        out = subprocess.run([sys.executable, '-c', _DET_CHILD % {'root': root}], env=env, capture_output=True, text=True, timeout=600)
        if out.returncode != 0:
            return {'status': 'error', 'error': out.stderr[-2000:]}
        results[s] = json.loads(out.stdout)
    viol = []
    n = 0
    amb = 0
    first = results[seeds[0]]
    for key, (a, b, c) in first.items():
        n += 1
        if not (a == b == c):
            viol.append({'fkey': 'det:%s' % key, 'what': 'choice differs between repeated calls / fresh instance: %s' % key})
        for s in seeds[1:]:
            if results[s][key][0] != a:
                viol.append({'fkey': 'det:%s' % key, 'what': 'choice for %s differs between PYTHONHASHSEED=%s and %s: %s vs %s' % (key, seeds[0], s, a, results[s][key][0])})
    return {'status': 'violated' if viol else 'holds', 'queries': 0, 'distinct_nontrivial': n, 'counts': {'det_cases': n, 'hash_seeds': len(seeds)},
            'samples': [{'case': k, 'choice': v[0]} for k, v in list(first.items())[-2:]], 'violations': viol[:5],
            'detail': 'hash seeds are sampled (%s): outside the solver quantifier' % seeds}


def plan(tier, seed):
    quick = tier == 'quick'
    slices = []
    ninputs = {}
    for g, (G, names, maxlen) in list(GRAMMARS.items()) + list(GRAMMARS_EMPTY.items()):
        ninputs[g] = len(_ambiguous_inputs(G, names, maxlen, cfg.BNF(G)))
    for g, (G, texts) in TXT_GRAMMARS.items():
        ninputs[g] = len(texts)
    for g in list(GRAMMARS) + list(GRAMMARS_EMPTY) + list(TXT_GRAMMARS):
        for wi in range(ninputs[g]):
            if quick and wi >= 3:
                continue
            slices.append({'id': 'sym:%s:input%d' % (g, wi), 'func': 'sym', 'params': {'kind': 'sym', 'g': g, 'wi': wi}, 'timeout': 200 if quick else 1800,
                           'bound': {'priorities': 'all of Z^%d' % NP, 'input': wi}, 'twin': wi == 0})
    for g in GRAMMARS:
        slices.append({'id': 'load:%s' % g, 'func': 'load', 'mode': 'realised', 'params': {'kind': 'load', 'g': g}, 'timeout': 300 if quick else 1800,
                       'bound': {'priority_values': PRIO_VALUES, 'modes': ['normal', 'invert', None]}})
    seeds = [0, 1, 2, 3, 4, 5, 100 + (seed % 1000), 12345 + seed] if quick else list(range(24)) + [100 + (seed % 1000), 12345 + seed]
    lemmas = [{'name': 'det:hashseeds:%d' % k, 'seeds': [seeds[0]] + seeds[1 + k::4], 'timeout': 900} for k in range(4)]
    meta = {
        'rule': 'sym: one path per (input, order relation among the symbolic priority sums the real code compares); load: one path per (priority vector, mode); '
                'det: one case per (grammar, input)',
        'technique': 'CrossHair symbolic execution of the real forest priority code with unbounded symbolic integer priorities; solver-closed enumeration of priority vectors; sampled hash seeds',
        'functions_encoded': ['lark.parsers.earley_forest.ForestSumVisitor', 'PackedNode.sort_key', 'SymbolNode.children', 'ForestToParseTree (resolve)',
                              'lark.parsers.earley.Parser.parse', 'lark.lark.Lark.__init__ (priority invert / None)', 'lark.parsers.xearley (terminal priorities)'],
        'bounds': {'priorities': 'unbounded (Z^n) in sym; {-1,0,2}^rules in load', 'inputs': 'all ambiguous token strings up to the per-grammar length bound',
                   'hash_seeds': 'sampled'},
        'outside_bounds': ['"all PYTHONHASHSEED values": sampled, not quantified by the solver', 'grammars outside the corpus'],
        'stubs_and_assumes': ['priorities are written into Rule.options.priority / TerminalDef.priority after construction (sym); the instance is built with a non-zero priority so that '
                              'the real ForestSumVisitor is installed'],
    }
    return {'slices': slices, 'lemmas': lemmas, 'meta': meta}
