"""Pipeline self-test harness (not a property)."""
from typing import List
from vfw import hs
from lark import Lark
from lark.exceptions import UnexpectedInput

P = hs.params()
PROPERTY = "SELFTEST"
L = P.get('L', 3)
NAMES = ['A', 'B', 'C']
G = Lark('start: A start B | C\n%declare A B C\n', parser=P.get('parser', 'lalr'), lexer=hs.make_list_lexer(NAMES))


def _body(rec, ix):
    try:
        G.parse(ix)
        acc = True
    except UnexpectedInput:
        acc = False
    ks = list(hs.CUR['kinds'])
    rec['key'] = [ks, acc]
    rec['nontrivial'] = acc
    if acc:
        n = ks.count('A')
        if not (ks == ['A'] * n + ['C'] + ['B'] * n):
            return hs.fail(rec, 'accepted non-member', kinds=ks)
    return True


def _corner(ix):
    return len(ix) == L and hs.sel(ix[0], 3) == 0


def check(ix: List[int]) -> bool:
    """
    pre: len(ix) <= L
    post: _
    """
    return hs.run_path(_body, (ix,), corner=_corner)


def plan(tier, seed):
    return {'slices': [{'id': 'L%d-%s' % (L, p), 'params': {'L': L, 'parser': p}, 'timeout': 60} for L in (4, 5) for p in ('lalr', 'earley')],
            'meta': {'rule': 'selftest'}}
