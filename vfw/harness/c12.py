"""C12 - the grammar cache is only an optimisation, whatever the state of the cache file.

The file system is an in-memory stub (lark.lark.FS replaced): open(rb) returns the stored bytes or raises FileNotFoundError, open(wb)
replaces the content on close. Imported grammar files are real files in a scratch directory (verify_used_files reads them).

 trunc (CrossHair, realised): cache file truncated at a symbolic offset k.
 flip  (CrossHair, realised): one byte at a symbolic position replaced (xor 1, xor 0x80, 0x00, 0xFF).
 hist  (CrossHair, realised): symbolic history of <= 3 builds against one cache path over {G1, G2, G1 with other options, G1 with an
       edited imported file}.
Each time: no exception; the returned parser behaves like an uncached build on the probe inputs; afterwards the stored file loads
without a rebuild into an equivalent parser. Validity is judged behaviourally (cache bytes are not deterministic across builds).
"""
import io
import os
import pickle
import pickletools
import shutil
import tempfile
from typing import List

from vfw import hs

PROPERTY = 'C12'
P = hs.params()

G1 = '''
start: greeting NAME+ tail?
!greeting: "hello" | "bye"
tail: "!" NUM | "!" "bye"
%import .c12common (NAME, NUM)
%ignore /[ \\n]+/
'''
G3 = '''
start: "hello" NAME+ ["!" NUM] "."
%import c12lib (NAME, NUM)
%ignore /[ \\n]+/
'''
G2 = '''
start: "hello" NUM+ mark
mark: "?" | "!"
%import .c12common (NAME, NUM)
%ignore /[ \\n]+/
'''
COMMON_V1 = 'NAME: /[a-z]+/\nNUM: /[0-9]+/\n'
COMMON_V2 = 'NAME: /[b-z]+/\nNUM: /[0-9]+/\n'        # same byte length as V1: a change that stat() metadata cannot reveal
PROBES = ['hello x .', 'hello abc !7 .', 'hello x', 'jello x', 'hello abc def !7', 'bye a', 'hello 12 ?', 'hello 1 2 !', 'hello', 'hello x !', 'hello a_b', 'hello x ! 7', '', 'hellox', 'byebye x',
          # newlines inside ignored text: line/column of tokens and errors after them
          # one terminal kept in a ! rule and filtered in another rule
          'hello x ! bye', 'bye x !bye',
          'hello x\ny !7 .', 'hello\n\nx\n?', 'bye a\n b\n', 'hello 12\n  ?', 'hello x\n!\n7\n.']

if P:
    import lark.lark as larkmod
    import lark.load_grammar as lg
    from lark import Lark
    from lark.exceptions import UnexpectedInput

    import logging
    from lark.utils import logger as _lark_logger
    _lark_logger.setLevel(logging.CRITICAL + 1)      # stub: logging of failed cache loads (tracebacks) has an empty body
    SCRATCH = tempfile.mkdtemp(prefix='vf_c12_')
    import atexit
    atexit.register(shutil.rmtree, SCRATCH, True)
    COMMON_PATH = os.path.join(SCRATCH, 'c12common.lark')

    class MemFS:
        files = {}
        exists = staticmethod(lambda name: name in MemFS.files)

        @staticmethod
        def open(name, mode='r', **kw):
            if 'w' in mode:
                buf = io.BytesIO()
                orig_close = buf.close

                def close():
                    MemFS.files[name] = buf.getvalue()
                    orig_close()
                buf.close = close
                return buf
            if name not in MemFS.files:
                raise FileNotFoundError(name)
            return io.BytesIO(MemFS.files[name])

    larkmod.FS = MemFS
    REBUILDS = [0]
    _orig_load_grammar = larkmod.load_grammar

    def _counting_load_grammar(*a, **kw):
        REBUILDS[0] += 1
        return _orig_load_grammar(*a, **kw)
    larkmod.load_grammar = _counting_load_grammar

    DIR_B = os.path.join(SCRATCH, 'b')
    os.makedirs(DIR_B)
    LIB_A = os.path.join(SCRATCH, 'liba')
    LIB_B = os.path.join(SCRATCH, 'libb')
    os.makedirs(LIB_A)
    os.makedirs(LIB_B)
    import sys as _sys
    for _sub, _t in (('letters', COMMON_V1), ('digits', COMMON_V2)):
        os.makedirs(os.path.join(SCRATCH, 'c12pkg', _sub))
        with open(os.path.join(SCRATCH, 'c12pkg', _sub, 'c12lib.lark'), 'w') as _f:
            _f.write(_t)
    open(os.path.join(SCRATCH, 'c12pkg', '__init__.py'), 'w').close()
    _sys.path.insert(0, SCRATCH)
    for _d, _t in ((LIB_A, COMMON_V1), (LIB_B, COMMON_V2), (DIR_B, COMMON_V2)):
        with open(os.path.join(_d, 'c12lib.lark' if _d != DIR_B else 'c12common.lark'), 'w') as _f:
            _f.write(_t)
    # configuration: (grammar, options, content of the relatively imported file, directory of the main grammar)
    CONFIGS = {
        0: (G1, {}, COMMON_V1, SCRATCH),
        1: (G2, {}, COMMON_V1, SCRATCH),
        2: (G1, {'keep_all_tokens': True}, COMMON_V1, SCRATCH),
        3: (G1, {}, COMMON_V2, SCRATCH),                            # edited imported file (same size, same mtime)
        4: (G1, {'lexer': 'basic'}, COMMON_V1, SCRATCH),
        5: (G3, {'import_paths': [LIB_A]}, COMMON_V1, SCRATCH),      # same text, %import resolved through different import_paths
        6: (G3, {'import_paths': [LIB_B]}, COMMON_V1, SCRATCH),
        7: (G3, {'import_paths': [LIB_A], 'maybe_placeholders': False}, COMMON_V1, SCRATCH),   # an option whose non-default value is falsy
        8: (G1, {}, COMMON_V1, DIR_B),                               # same text in another directory: the relative import finds another file
        9: (G1, {}, '', SCRATCH),                                    # the imported file emptied: an uncached build fails (NAME is not defined)
        # the same text, %import resolved by package loaders that differ in their search paths only
        10: (G3, {'import_paths': [lg.FromPackageLoader('c12pkg', ('letters',))]}, COMMON_V1, SCRATCH),
        11: (G3, {'import_paths': [lg.FromPackageLoader('c12pkg', ('digits',))]}, COMMON_V1, SCRATCH),
    }
    NCONF = P.get('nconf', len(CONFIGS))
    PINH = P.get('first')
    MTIME = 1600000000

    def _write_common(text):
        with open(COMMON_PATH, 'w') as f:
            f.write(text)
        os.utime(COMMON_PATH, (MTIME, MTIME))       # environment stub: file metadata does not reveal the edit

    def build(cfg, cache):
        g, opts, common, d = CONFIGS[cfg]
        _write_common(common)
        main = os.path.join(d, 'main.lark')
        with open(main, 'w') as f:
            f.write(g)
        # Lark.open: the source path comes from the file object (it is not an option and so not part of the cache key)
        return Lark.open(main, parser='lalr', cache=cache, **opts)

    def behaviour(lk):
        out = []
        for t in PROBES:
            out.append(hs.outcome(lk.parse, t))
        return out

    def _ref(c):
        try:
            return behaviour(build(c, False))
        except lg.GrammarError as e:
            return ('build-error', type(e).__name__)
    REF = {c: _ref(c) for c in CONFIGS}
    assert REF[9] == ('build-error', 'GrammarError') and all(isinstance(REF[c], list) for c in CONFIGS if c != 9)
    _same = [(a, b) for a in REF for b in REF if a < b and REF[a] == REF[b]]
    assert set(_same) <= {(3, 8), (5, 10), (6, 11)}, 'configurations must be behaviourally distinct on the probes (3/8, 5/10, 6/11 share their imported content): %s' % _same
    MemFS.files.clear()
    build(0, 'cache.bin')
    BASE = MemFS.files['cache.bin']
    NB = len(BASE)
    # pickle opcode boundaries of the payload pickles (after the ASCII header line(s)), plus first / middle / last byte of every opcode
    # argument (string contents, lengths, integers), plus the header bytes around the line ends
    _hdr = BASE.index(b'\x80')
    _b = {0, 1, NB - 1, NB} | {i + d for i, ch in enumerate(BASE[:_hdr]) if ch == 10 for d in (-1, 0, 1)} | {_hdr // 2, _hdr // 3}
    _start = _hdr
    while _start < NB:
        _ops = [pos for (_, _, pos) in pickletools.genops(BASE[_start:])]
        _ops.append(_ops[-1] + 1)
        for a, b in zip(_ops, _ops[1:]):
            _b |= {_start + a, _start + a + 1, _start + (a + b) // 2, _start + b - 1}
        _start += _ops[-1]
    BOUNDARIES = sorted(x for x in _b if 0 <= x <= NB)
    MODE = P.get('positions', 'boundaries')
    POSITIONS = BOUNDARIES if MODE == 'boundaries' else list(range(NB + 1))
    LO, HI = P.get('lo', 0), P.get('hi', len(POSITIONS))
    POSITIONS = POSITIONS[LO:HI]
    if P.get('part') is not None:
        POSITIONS = POSITIONS[P['part'][0]::P['part'][1]]       # strided partition: independent of the file size
    NPOS = len(POSITIONS)


def _check_after(rec, cfg, what):
    """The parser just built must behave like an uncached build; then the stored file must load (no rebuild) into an equivalent one."""
    return True


def _build_and_check(rec, cfg, label):
    REBUILDS[0] = 0
    if isinstance(REF[cfg], tuple):
        # the grammar itself is in error: the cached construction must fail like the uncached one, not serve an older parser
        try:
            build(cfg, 'cache.bin')
        except Exception as e:
            if type(e).__name__ == REF[cfg][1]:
                return True
            rec['fkey'] = 'raises:%s' % type(e).__name__
            return hs.fail(rec, '%s: Lark(cache=...) raised %s where an uncached build raises %s' % (label, type(e).__name__, REF[cfg][1]))
        rec['fkey'] = 'wrong-parser:%s' % label.split(':')[0]
        return hs.fail(rec, '%s: a parser was served although an uncached build of this configuration fails with %s' % (label, REF[cfg][1]))
    try:
        lk = build(cfg, 'cache.bin')
    except Exception as e:
        rec['fkey'] = 'raises:%s' % type(e).__name__
        return hs.fail(rec, '%s: Lark(cache=...) raised %s: %s' % (label, type(e).__name__, str(e)[:200]))
    try:
        got = behaviour(lk)
    except Exception as e:
        rec['fkey'] = 'wrong-parser:%s' % label.split(':')[0]
        return hs.fail(rec, '%s: the returned parser raises %s on a probe input: %s' % (label, type(e).__name__, str(e)[:150]))
    if got != REF[cfg]:
        diff = [(p, g, w) for p, g, w in zip(PROBES, got, REF[cfg]) if g != w][:2]
        served = [c for c, v in REF.items() if v == got]
        rec['fkey'] = 'wrong-parser:%s' % label.split(':')[0]
        return hs.fail(rec, '%s: the returned parser differs from an uncached build (rebuilt: %s)%s' %
                       (label, bool(REBUILDS[0]), '; it is the parser of configuration %s' % served[0] if served else ''), diff=diff)
    # the file left behind must be valid: next construction is served from it without a rebuild
    REBUILDS[0] = 0
    try:
        lk2 = build(cfg, 'cache.bin')
    except Exception as e:
        rec['fkey'] = 'raises-second:%s' % type(e).__name__
        return hs.fail(rec, '%s: second construction raised %s' % (label, type(e).__name__))
    if REBUILDS[0]:
        rec['fkey'] = 'not-repaired:%s' % label.split(':')[0]
        return hs.fail(rec, '%s: the stale/damaged file was not replaced by a valid one (second construction rebuilt again)' % label)
    try:
        got2 = behaviour(lk2)
    except Exception as e:
        got2 = repr(e)
    if got2 != REF[cfg]:
        rec['fkey'] = 'wrong-parser-second:%s' % label.split(':')[0]
        return hs.fail(rec, '%s: the file left behind serves a parser that differs from an uncached build' % label)
    return True


def _trunc_body(rec, ki):
    if NPOS == 0:
        return True
    k = POSITIONS[hs.sel(ki, NPOS)]
    with hs.untraced():
        MemFS.files.clear()
        MemFS.files['cache.bin'] = BASE[:k]
        rec['key'] = ['trunc', k]
        rec['nontrivial'] = 0 < k < NB
        rec['count'] = {'cases': 1}
        return _build_and_check(rec, 0, 'truncated at %d of %d' % (k, NB))


def trunc(ki: int) -> bool:
    """
    pre: True
    post: _
    """
    return hs.run_path(_trunc_body, (ki,), corner=lambda ki: hs.sel(ki, NPOS) == NPOS - 1)


FLIPS = [('xor1', lambda b: b ^ 1), ('xor80', lambda b: b ^ 0x80), ('zero', lambda b: 0), ('ff', lambda b: 0xFF)]


def _flip_body(rec, pi, kind):
    if NPOS == 0:
        return True
    pos = POSITIONS[hs.sel(pi, NPOS)]
    kind = hs.sel(kind, len(FLIPS))
    with hs.untraced():
        if pos >= NB:
            return True
        name, fn = FLIPS[kind]
        nb = fn(BASE[pos])
        rec['key'] = ['flip', pos, name]
        rec['nontrivial'] = nb != BASE[pos]
        rec['count'] = {'cases': 1}
        if nb == BASE[pos]:
            return True
        MemFS.files.clear()
        MemFS.files['cache.bin'] = BASE[:pos] + bytes([nb]) + BASE[pos + 1:]
        return _build_and_check(rec, 0, 'byte %d %s' % (pos, name))


def flip(pi: int, kind: int) -> bool:
    """
    pre: True
    post: _
    """
    return hs.run_path(_flip_body, (pi, kind), corner=lambda pi, kind: hs.sel(pi, NPOS) == NPOS - 1 and hs.sel(kind, len(FLIPS)) == len(FLIPS) - 1)


def _hist_body(rec, hist):
    n = hs.pick(len(hist), 1, 3)
    cfgs = [hs.sel(hist[k], NCONF) for k in range(n)]
    with hs.untraced():
        MemFS.files.clear()
        rec['key'] = ['hist', cfgs]
        rec['nontrivial'] = len(set(cfgs)) > 1
        rec['count'] = {'cases': 1}
        for step, c in enumerate(cfgs):
            r = _build_and_check(rec, c, 'history %s step %d (configuration %d)' % (cfgs, step, c))
            if r is not True:
                return r
    return True


def hist(hist: List[int]) -> bool:
    """
    pre: 1 <= len(hist) <= 3 and (PINH is None or hist[0] == PINH)
    post: _
    """
    return hs.run_path(_hist_body, (hist,), corner=lambda hist: len(hist) == 3 and hs.sel(hist[2], NCONF) == 4)


def plan(tier, seed):
    quick = tier == 'quick'
    slices = []
    if quick:
        for part in range(4):
            slices.append({'id': 'trunc:boundaries:%d/4' % part, 'func': 'trunc', 'mode': 'realised', 'twin': part == 0,
                           'params': {'kind': 'trunc', 'positions': 'boundaries', 'part': [part, 4]}, 'timeout': 400,
                           'bound': {'offsets': 'header line ends and first/middle/last byte of every pickle opcode and argument'}})
        for part in range(10):
            slices.append({'id': 'flip:boundaries:%d/10' % part, 'func': 'flip', 'mode': 'realised',
                           'params': {'kind': 'flip', 'positions': 'boundaries', 'part': [part, 10]},
                           'timeout': 400, 'twin': part == 0, 'bound': {'positions': 'opcode boundaries +-1', 'kinds': [f[0] for f in FLIPS]}})
    else:
        for part in range(16):
            slices.append({'id': 'trunc:all:%d/16' % part, 'func': 'trunc', 'mode': 'realised',
                           'params': {'kind': 'trunc', 'positions': 'all', 'part': [part, 16]}, 'timeout': 2400,
                           'twin': part == 0, 'bound': {'offsets': 'every byte offset'}})
        for part in range(32):
            slices.append({'id': 'flip:all:%d/32' % part, 'func': 'flip', 'mode': 'realised',
                           'params': {'kind': 'flip', 'positions': 'all', 'part': [part, 32]}, 'timeout': 3000,
                           'twin': part == 0, 'bound': {'positions': 'every byte', 'kinds': [f[0] for f in FLIPS]}})
    for first in range(12):
        slices.append({'id': 'hist:len<=3:first%d' % first, 'func': 'hist', 'mode': 'realised', 'params': {'kind': 'hist', 'first': first}, 'timeout': 600,
                       'twin': first == 0, 'bound': {'builds': 3, 'configurations': 12}})
    meta = {
        'rule': 'one path per (fault kind, position) / per history; non-trivial = the file content actually differs from the valid one / the history mixes configurations',
        'technique': 'CrossHair solver-closed enumeration of fault positions and build histories, realised (pickle.load is a C extension: it realises its input anyway); '
                     'behavioural equivalence with an uncached build on a probe set; rebuild counter on load_grammar',
        'functions_encoded': ['lark.lark.Lark.__init__ (cache load / fallback / save)', 'Lark.save/_load', 'lark.load_grammar.verify_used_files', 'lark.utils.FS (stubbed)'],
        'bounds': {'probe_inputs': len(PROBES), 'fault_positions': 'opcode boundaries (quick) / every byte (thorough)', 'history_length': 3, 'configurations': 12},
        'outside_bounds': ['multi-byte corruption', 'file systems that violate the stub contract (torn writes)', 'pickles crafted to execute code'],
        'stubs_and_assumes': ['lark logger silenced (failed cache loads log tracebacks)', 'FS replaced by an in-memory store: open(rb) returns the stored bytes or raises FileNotFoundError; open(wb) replaces the content when closed',
                              'equivalence is judged on %d probe inputs' % len(PROBES)],
    }
    return {'slices': slices, 'meta': meta}
