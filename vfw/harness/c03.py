"""C03 - the returned tree is the documented shaping of a derivation; engines agree.

e2e (CrossHair): symbolic token-kind sequences through Earley, LALR and CYK with keep_all_tokens / maybe_placeholders on and off;
the returned tree must be the documented shaping (refsem.shape) of a derivation (refsem.cfg) - of *the* derivation when there
is one, hence all engines agree."""
from vfw import corpus
from vfw.harness.planutil import tok_slices

PROPERTY = 'C03'

SHAPING = ['shape1', 'shape2', 'shape3', 'shape4', 'ebnf', 'list_sep', 'nullchain']
LALR_SR = {'shape3', 'shape4'}      # LALR handles them with shift preference: completeness not asserted there


def plan(tier, seed):
    quick = tier == 'quick'
    L = 4 if quick else 6
    slices = []
    budget = 60 if quick else 900
    for g in SHAPING:
        for extra in ({}, {'mp': False}, {'kat': True}) if quick else ({}, {'mp': False}, {'kat': True}, {'mp': False, 'kat': True}):
            slices += tok_slices('e2e', g, 'earley', L, ['member', 'shape'], 0.35, budget, extra)
            slices += tok_slices('e2e', g, 'lalr', L, ['member', 'shape'], 0.07, budget, extra, complete=g not in LALR_SR)
    for g in corpus.tok_names('cnf_ok'):
        slices += tok_slices('e2e', g, 'cyk', L, ['member', 'shape'], 0.15, budget)
    meta = {
        'rule': 'one path per viable token prefix plus one rejecting extension; non-trivial = non-empty input; accepted inputs are compared with the shaped derivation(s)',
        'technique': 'CrossHair symbolic execution of the real parsers and ParseTreeBuilder callbacks vs. an independent shaping oracle',
        'functions_encoded': ['lark.parse_tree_builder.ParseTreeBuilder.create_callback', 'ChildFilter/ChildFilterLALR/ChildFilterLALR_NoPlaceholders',
                              'ExpandSingleChild', 'maybe_create_child_filter', 'lark.load_grammar.EBNF_to_BNF (incl. maybe / FindRuleSize)',
                              'lark.parsers.earley_forest.ForestToParseTree', 'lark.parsers.cyk (to_cnf/revert_cnf)', 'LALR parser loop'],
        'bounds': {'tokens': L, 'grammars': len(SHAPING) + len(corpus.tok_names('cnf_ok'))},
        'outside_bounds': ['custom tree_class', 'propagate_positions callables', 'grammars outside the corpus', 'text-level engines (lexer variety is covered by C06/C07 harnesses)'],
        'stubs_and_assumes': ['tokens supplied by the documented custom-lexer interface'],
    }
    return {'slices': slices, 'meta': meta}
