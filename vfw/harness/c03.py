"""C03 - the returned tree is the documented shaping of a derivation; engines agree.

e2e (CrossHair): symbolic token-kind sequences through Earley, LALR and CYK with keep_all_tokens / maybe_placeholders on and off;
the returned tree must be the documented shaping (refsem.shape) of a derivation (refsem.cfg) - of *the* derivation when there
is one, hence all engines agree."""
import itertools
from typing import List

from vfw import corpus, hs
from vfw.harness.planutil import tok_slices
from vfw.refsem import cfg, shape
from vfw.refsem.gdsl import Grammar, Rule, Alt, T, N, L, Opt, Maybe, Star, Plus, Rep, Tpl, Term

PROPERTY = 'C03'
P = hs.params()

# rule template: `R: item item [item]` with every modifier and option combination (solver-closed enumeration of programs, realised)
ITEMS = {
    'A': lambda: T('A'), '_U': lambda: T('_U'), 'x': lambda: L('x'), 'sub': lambda: N('sub'), '_inl': lambda: N('_inl'),
    '[A]': lambda: Maybe(T('A')), '[_U]': lambda: Maybe(T('_U')), '[A sub]': lambda: Maybe(T('A'), N('sub')), '[_U x]': lambda: Maybe(T('_U'), L('x')),
    'A?': lambda: Opt(T('A')), '[_inl]': lambda: Maybe(N('_inl')), 'x*': lambda: Star(L('x')),
}
ITEM_NAMES = list(ITEMS)
MODS = ['', '?', '!', '?!']
TPL_NAMES = ['A', '_U', 'X', 'C']

if P and P.get('kind') == 'tpl':
    from lark import Lark
    from lark.exceptions import UnexpectedInput, GrammarError
    NI = len(ITEM_NAMES)
    NITEMS = P['nitems']
    MOD = P['mod']
    MP = P['mp']
    KAT = P['kat']
    LEX = hs.make_list_lexer(TPL_NAMES)
    INPUTS = [list(w) for n in range(P['L'] + 1) for w in itertools.product(range(len(TPL_NAMES)), repeat=n)]


def _tpl_grammar(items, mod):
    return Grammar([Rule('start', [[N('r')], [T('C'), N('r'), T('C')]]), Rule(mod + 'r', [[ITEMS[i]() for i in items]]),
                    Rule('sub', [[T('C')]]), Rule('_inl', [[T('C'), Opt(T('A'))]])], declare=['A', '_U', 'C'])


def _tpl_body(rec, ix):
    names = [ITEM_NAMES[hs.sel(ix[k], NI)] for k in range(NITEMS)]
    with hs.untraced():
        g = _tpl_grammar(names, MOD)
        rec['key'] = [names, MOD, MP, KAT]
        rec['nontrivial'] = True
        bnf = cfg.BNF(g, maybe_placeholders=MP, keep_all_tokens=KAT)
        parsers = []
        for parser in ('earley', 'lalr'):
            try:
                parsers.append((parser, Lark(g.render(), parser=parser, lexer=LEX, maybe_placeholders=MP, keep_all_tokens=KAT)))
            except GrammarError as e:
                if 'Rules defined twice' in str(e) or 'Reduce/Reduce' in str(e):
                    rec.setdefault('count', {})['grammar_errors_%s' % parser] = 1
                    continue
                raise
        rec.setdefault('count', {})['grammars'] = 1
        checked = 0
        for w in INPUTS:
            kinds = [TPL_NAMES[i] for i in w]
            inp = cfg.TokenInput(kinds)
            recog = cfg.Recognizer(bnf, inp)
            if not recog.member():
                continue
            shaped = None
            for parser, lk in parsers:
                try:
                    tree = lk.parse(w)
                except UnexpectedInput:
                    if parser == 'earley':
                        return hs.fail(rec, 'Earley rejects a sentence', grammar=g.render(), kinds=kinds)
                    continue        # LALR with conflicts: completeness not promised
                if shaped is None:
                    shaped = [shape.shape_root(d, inp) for d in recog.derivations(limit=2000)]
                got = shape.of_lark(tree)
                checked += 1
                if not any(shape.same(s, got) for s in shaped):
                    return hs.fail(rec, 'tree is not the documented shaping of any derivation', grammar=g.render(), parser=parser, kinds=kinds,
                                   maybe_placeholders=MP, keep_all_tokens=KAT, got=got, expected_one_of=shaped[:3])
        rec['count']['trees_checked'] = checked
    return True


def tpl(ix: List[int]) -> bool:
    """
    pre: len(ix) == NITEMS
    post: _
    """
    return hs.run_path(_tpl_body, (ix,), corner=lambda ix: hs.sel(ix[NITEMS - 1], NI) == NI - 1 and hs.sel(ix[0], NI) == NI - 1)


# ---------------------------------------------------------------------------------------------------------------------
# two rules side by side: the same operator applied to an anonymous literal (filtered) in one and to the named terminal with the same
# pattern (kept) in the other - generated helper rules and template instances must not be shared between the two
PAIR_ITEMS = {
    'x+': lambda: Plus(L('x')), 'X+': lambda: Plus(T('X')), 'x*': lambda: Star(L('x')), 'X*': lambda: Star(T('X')),
    'x~2': lambda: Rep(L('x'), 2, 2), 'X~2': lambda: Rep(T('X'), 2, 2), 'x~1..2': lambda: Rep(L('x'), 1, 2), 'X~1..2': lambda: Rep(T('X'), 1, 2),
    't{x}': lambda: Tpl('t', L('x')), 't{X}': lambda: Tpl('t', T('X')), '[x]': lambda: Maybe(L('x')), '[X]': lambda: Maybe(T('X')),
}
PAIR_NAMES = list(PAIR_ITEMS)
PAIR_MODS = ['', '!']

if P and P.get('kind') == 'pair':
    from lark import Lark
    from lark.exceptions import UnexpectedInput, GrammarError
    NPI = len(PAIR_NAMES)
    PMODS = P['mods']
    PAIR_TEXTS = [''.join(w) for n in range(P['L'] + 1) for w in itertools.product('xy', repeat=n)]


def _pair_grammar(ia, ib, ma, mb):
    return Grammar([Rule('start', [[N('a'), N('b')]]), Rule(ma + 'a', [[PAIR_ITEMS[ia](), T('Y')]]), Rule(mb + 'b', [[PAIR_ITEMS[ib](), Opt(T('Y'))]]),
                    Rule('t', [[N('p'), N('p')]], params=['p'])], terms=[Term('X', 'x'), Term('Y', 'y')])


def _pair_body(rec, ia, ib):
    ia = PAIR_NAMES[hs.sel(ia, NPI)]
    ib = PAIR_NAMES[hs.sel(ib, NPI)]
    with hs.untraced():
        g = _pair_grammar(ia, ib, PAIR_MODS[PMODS[0]], PAIR_MODS[PMODS[1]])
        rec['key'] = [ia, ib, PMODS]
        rec['nontrivial'] = True
        if (PMODS[0] == 1 and ia == 't{x}') or (PMODS[1] == 1 and ib == 't{x}'):
            # a literal written in a ! rule and handed to a template: lark keeps it in the instance (kept where written); the shaping
            # rules as documented do not say which rule decides - not asserted either way
            rec['count'] = {'skipped_literal_argument_from_keep_all_rule': 1}
            return True
        bnf = cfg.BNF(g)
        rx = cfg.text_regexps(g, bnf)
        parsers = [(name, Lark(g.render(), parser=pr, lexer=lx)) for name, pr, lx in (('lalr', 'lalr', 'contextual'), ('earley', 'earley', 'dynamic'))]
        checked = 0
        for text in PAIR_TEXTS:
            inp = cfg.TextInput(text, rx, ignore=[], mode='longest')
            recog = cfg.Recognizer(bnf, inp)
            member = recog.member()
            shaped = None
            for name, lk in parsers:
                try:
                    tree = lk.parse(text)
                except UnexpectedInput:
                    if member:
                        return hs.fail(rec, '%s rejects a sentence' % name, grammar=g.render(), text=text)
                    continue
                if not member:
                    return hs.fail(rec, '%s accepts a non-sentence' % name, grammar=g.render(), text=text)
                if shaped is None:
                    shaped = [shape.shape_root(d, inp) for d in recog.derivations(limit=2000)]
                got = shape.of_lark(tree)
                checked += 1
                if not any(shape.same(s_, got) for s_ in shaped):
                    return hs.fail(rec, 'tree is not the documented shaping of any derivation', grammar=g.render(), parser=name, text=text, got=got, expected_one_of=shaped[:3])
        rec['count'] = {'grammars': 1, 'trees_checked': checked}
    return True


def pair(ia: int, ib: int) -> bool:
    """
    post: _
    """
    return hs.run_path(_pair_body, (ia, ib), corner=lambda ia, ib: hs.sel(ia, NPI) == NPI - 1 and hs.sel(ib, NPI) == NPI - 1)


SHAPING = ['shape1', 'shape2', 'shape3', 'shape4', 'shape5', 'shape6', 'ebnf', 'list_sep', 'nullchain']
LALR_SR = {'shape3', 'shape4', 'shape5', 'shape6'}      # LALR handles them with shift preference: completeness not asserted there


def plan(tier, seed):
    quick = tier == 'quick'
    L = 4 if quick else 6
    slices = []
    budget = 60 if quick else 900
    for g in SHAPING:
        for extra in ({}, {'mp': False}, {'kat': True}) if quick else ({}, {'mp': False}, {'kat': True}, {'mp': False, 'kat': True}):
            slices += tok_slices('e2e', g, 'earley', L, ['member', 'shape'], 0.35, budget, extra)
            slices += tok_slices('e2e', g, 'lalr', L, ['member', 'shape'], 0.07, budget, extra, complete=g not in LALR_SR)
    for g in corpus.tok_names('cnf_ok'):
        slices += tok_slices('e2e', g, 'cyk', L, ['member', 'shape'], 0.15, budget)
    for mod in MODS:
        for mp in (True, False):
            for kat in (False, True):
                ni = 2 if quick else 3
                slices.append({'id': 'tpl:%d-items:mod=%s:mp=%s:kat=%s' % (ni, mod or '-', mp, kat), 'func': 'tpl', 'mode': 'realised', 'module': 'vfw.harness.c03',
                               'params': {'kind': 'tpl', 'nitems': ni, 'mod': mod, 'mp': mp, 'kat': kat, 'L': 4 if quick else 4},
                               'timeout': 400 if quick else 3000, 'twin': mod == '' and mp and not kat,
                               'bound': {'grammars': len(ITEM_NAMES) ** ni, 'input_tokens': 4}})
    for ma in range(2):
        for mb in range(2):
            slices.append({'id': 'pair:mods=%s,%s' % (PAIR_MODS[ma] or '-', PAIR_MODS[mb] or '-'), 'func': 'pair', 'mode': 'realised', 'module': 'vfw.harness.c03',
                           'params': {'kind': 'pair', 'mods': [ma, mb], 'L': 6 if quick else 8}, 'timeout': 600 if quick else 3000, 'twin': ma == 0 and mb == 0,
                           'bound': {'grammars': len(PAIR_NAMES) ** 2, 'chars': 6 if quick else 8, 'parsers': ['lalr/contextual', 'earley/dynamic']}})
    meta = {
        'rule': 'tpl: one path per template grammar (rule of 2-3 items x modifier x options), each checked on every sentence up to 4 tokens; e2e: one path per viable token prefix plus one rejecting extension; non-trivial = non-empty input; accepted inputs are compared with the shaped derivation(s)',
        'technique': 'CrossHair symbolic execution of the real parsers and ParseTreeBuilder callbacks vs. an independent shaping oracle',
        'functions_encoded': ['lark.parse_tree_builder.ParseTreeBuilder.create_callback', 'ChildFilter/ChildFilterLALR/ChildFilterLALR_NoPlaceholders',
                              'ExpandSingleChild', 'maybe_create_child_filter', 'lark.load_grammar.EBNF_to_BNF (incl. maybe / FindRuleSize)',
                              'lark.parsers.earley_forest.ForestToParseTree', 'lark.parsers.cyk (to_cnf/revert_cnf)', 'LALR parser loop'],
        'bounds': {'tokens': L, 'grammars': len(SHAPING) + len(corpus.tok_names('cnf_ok'))},
        'outside_bounds': ['custom tree_class', 'propagate_positions callables', 'grammars outside the corpus', 'text-level engines (lexer variety is covered by C06/C07 harnesses)'],
        'stubs_and_assumes': ['tokens supplied by the documented custom-lexer interface'],
    }
    return {'slices': slices, 'meta': meta}
