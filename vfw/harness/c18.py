"""C18 - Indenter emits CPython's INDENT/DEDENT structure.

 step   (CrossHair, inductive): one Indenter.handle_NL call from an *arbitrary* valid state: the indent stack holds unbounded symbolic
        ints (0 < s1 < ... < s5, depth <= 6), paren_level is a symbolic int >= 0, tab_len is a symbolic int >= 1; the newline token's
        indentation is <= 4 characters over {space, tab} after an arbitrary number (0..2) of blank lines. One step from an arbitrary
        state covers streams of any length.
 stream (CrossHair): a lazily realised symbolic token stream (WORD, brackets, newline tokens with 6 indentation spellings) through
        Indenter.process on one Indenter object, optionally after an abandoned or failed earlier stream; output vs. the reference
        (CPython's stack algorithm with lark's width metric); for space-only streams additionally vs. the real tokenize module.
"""
import io
import tokenize
from typing import List

from vfw import hs

PROPERTY = 'C18'
P = hs.params()

INDENTS = ['', ' ', '  ', '\t', ' \t', '    ']
KINDS = ['WORD', 'LPAR', 'RPAR'] + ['NL%d' % i for i in range(len(INDENTS))]

if P:
    from lark.indenter import Indenter, DedentError
    from lark.lexer import Token

    class Ind(Indenter):
        NL_type = '_NL'
        OPEN_PAREN_types = ['LPAR']
        CLOSE_PAREN_types = ['RPAR']
        INDENT_type = '_INDENT'
        DEDENT_type = '_DEDENT'
        tab_len = 8

    DEPTH = P.get('depth', 4)
    if P.get('kind') == 'step':
        hs.stub_percent_format()
    BLANKS = P.get('blanks', 0)
    L = P.get('L', 4)
    NK = len(KINDS)


def _width(s, tab_len):
    return s.count(' ') + s.count('\t') * tab_len


def _step_body(rec, depth, s1, s2, s3, s4, s5, paren, tab_len, ind, blanks):
    depth = hs.pick(depth, 1, DEPTH)
    stack = [0, s1, s2, s3, s4, s5][:depth]
    nchars = hs.pick(len(ind), 0, 4)
    indent_str = ''.join('\t' if ind[k] else ' ' for k in range(nchars))
    blanks = hs.pick(blanks, 0, 2)
    value = '\n' + '  \n' * blanks + indent_str
    ix2 = _with_tab_len(tab_len)
    ix2.indent_level = list(stack)
    ix2.paren_level = paren
    tok = Token('_NL', value, 5, 1, 6, 2, 1, 5 + len(value))
    out = []
    err = None
    try:
        for t in ix2.handle_NL(tok):
            out.append(t)
    except DedentError as e:
        err = e
    rec['key'] = [depth, indent_str, blanks]
    rec['nontrivial'] = True
    # reference step
    spaces = 0
    tabs = 0
    for k in range(nchars):
        if ind[k]:
            tabs += 1
        else:
            spaces += 1
    indent = spaces + tabs * tab_len
    if paren > 0:
        if out or err is not None or ix2.indent_level != stack:
            return hs.fail(rec, 'newline inside brackets produced output or changed the stack')
        return True
    want_types = ['_NL']
    ref = list(stack)
    want_err = False
    if indent > ref[-1]:
        ref.append(indent)
        want_types.append('_INDENT')
    else:
        while indent < ref[-1]:
            ref.pop()
            want_types.append('_DEDENT')
        if indent != ref[-1]:
            want_err = True
    got_types = [t.type for t in out]
    if got_types != want_types:
        return hs.fail(rec, 'emitted tokens differ from the reference step', got=got_types, want=want_types)
    if want_err != (err is not None):
        return hs.fail(rec, 'DedentError %s' % ('missing' if want_err else 'unexpected'))
    if not want_err and ix2.indent_level != ref:
        return hs.fail(rec, 'indent stack after the step differs from the reference')
    if out and out[0] is not tok:
        return hs.fail(rec, 'newline token not passed through')
    return True


def _with_tab_len(tab_len):
    class IndT(Ind):
        pass
    IndT.tab_len = tab_len
    return IndT()


def step(depth: int, s1: int, s2: int, s3: int, s4: int, s5: int, paren: int, tab_len: int, ind: List[bool], blanks: int) -> bool:
    """
    pre: depth == DEPTH and 0 < s1 < s2 < s3 < s4 < s5 and paren >= 0 and tab_len >= 1 and len(ind) <= 4 and blanks == BLANKS
    post: _
    """
    return hs.run_path(_step_body, (depth, s1, s2, s3, s4, s5, paren, tab_len, ind, blanks),
                       corner=lambda d, s1, s2, s3, s4, s5, p, t, ind, b: len(ind) == 4 and ind[3] and p == 0)


# ---------------------------------------------------------------------------------------------------------------------

def _mk_token(kind, k):
    if kind.startswith('NL'):
        return Token('_NL', '\n' + INDENTS[int(kind[2:])], k, 1, 1, 1, 1, k + 1)
    return Token(kind, {'WORD': 'w', 'LPAR': '(', 'RPAR': ')'}[kind], k, 1, 1, 1, 1, k + 1)


def _reference(kinds, tab_len=8):
    """CPython's indentation algorithm (stack of columns, bracket depth) with lark's width metric."""
    out = []
    stack = [0]
    paren = 0
    for kind in kinds:
        if kind.startswith('NL'):
            if paren == 0:
                out.append('_NL')
                indent = _width(INDENTS[int(kind[2:])], tab_len)
                if indent > stack[-1]:
                    stack.append(indent)
                    out.append('_INDENT')
                else:
                    while indent < stack[-1]:
                        stack.pop()
                        out.append('_DEDENT')
                    if indent != stack[-1]:
                        return out, 'DedentError'
        else:
            out.append(kind)
        if kind == 'LPAR':
            paren += 1
        elif kind == 'RPAR':
            paren -= 1
            if paren < 0:
                return out, 'unbalanced'
    while len(stack) > 1:
        stack.pop()
        out.append('_DEDENT')
    return out, None


def _tokenize_structure(kinds):
    """INDENT/DEDENT/NEWLINE structure from the real tokenize module for a space-only stream (None if not applicable)."""
    if any(k.startswith('NL') and '\t' in INDENTS[int(k[2:])] for k in kinds):
        return None
    text = ''
    for k in kinds:
        if k.startswith('NL'):
            text += '\n' + INDENTS[int(k[2:])]
        else:
            text += {'WORD': 'w ', 'LPAR': '( ', 'RPAR': ') '}[k]
    if not text.endswith('\n'):
        text += '\n'
    out = []
    try:
        for t in tokenize.generate_tokens(io.StringIO(text).readline):
            if t.type == tokenize.INDENT:
                out.append('_INDENT')
            elif t.type == tokenize.DEDENT:
                out.append('_DEDENT')
    except (tokenize.TokenError, IndentationError, SyntaxError):
        return 'error'
    return out


def _stream_body(rec, hist, ix):
    hist = hs.pick(hist, 0, 2)
    ind = Ind()
    if hist == 1:
        # an earlier stream abandoned half-way: open bracket and open indentation left behind
        g = ind.process(iter([_mk_token('WORD', 0), _mk_token('NL2', 1), _mk_token('LPAR', 2), _mk_token('WORD', 3)]))
        next(g); next(g); next(g); next(g)
    elif hist == 2:
        # an earlier stream that failed with DedentError
        try:
            list(ind.process(iter([_mk_token('WORD', 0), _mk_token('NL2', 1), _mk_token('WORD', 2), _mk_token('NL1', 3)])))
        except DedentError:
            pass
    pulled = []

    def stream():
        k = 0
        while k < len(ix):
            kind = KINDS[hs.sel(ix[k], NK)]
            pulled.append(kind)
            yield _mk_token(kind, k)
            k += 1
    out = []
    err = None
    try:
        for t in ind.process(stream()):
            out.append(t.type)
    except DedentError:
        err = 'DedentError'
    except AssertionError:
        err = 'unbalanced'
    with hs.untraced():
        rec['key'] = [hist, list(pulled)]
        rec['nontrivial'] = any(k.startswith('NL') for k in pulled)
        want, werr = _reference(pulled)
        rec['count'] = {'streams': 1, 'dedent_errors': int(werr == 'DedentError')}
        if werr == 'unbalanced':
            # a close bracket without an open one: outside the property (the parser rejects the token first); lark asserts
            return True
        if err != werr:
            return hs.fail(rec, 'stream ended with %s, reference: %s' % (err, werr), kinds=list(pulled))
        if out != want:
            return hs.fail(rec, 'emitted structure differs from the reference', kinds=list(pulled), got=out, want=want)
        if werr is None:
            if out.count('_INDENT') != out.count('_DEDENT'):
                return hs.fail(rec, 'INDENT/DEDENT not balanced at end of stream', kinds=list(pulled))
            # the real tokenizer on space-only streams whose first line is not indented and that end at bracket depth 0
            depth = pulled.count('LPAR') - pulled.count('RPAR')
            # tokenize sees lines, the Indenter sees newline tokens: the two views coincide when every indented newline token is
            # followed by content on its line (a whitespace-only line is a blank line to CPython, and the usual newline terminal
            # (\n[\t ]*)+ never produces two newline tokens in a row)
            lines_ok = all(not k.startswith('NL') or k == 'NL0' or (n + 1 < len(pulled) and not pulled[n + 1].startswith('NL'))
                           for n, k in enumerate(pulled))
            if depth == 0 and pulled and not pulled[0].startswith('NL') and lines_ok:
                ts = _tokenize_structure(pulled)
                if ts is not None and ts != 'error':
                    rec['count']['vs_tokenize'] = 1
                    if [x for x in out if x in ('_INDENT', '_DEDENT')] != ts:
                        return hs.fail(rec, 'INDENT/DEDENT sequence differs from the tokenize module', kinds=list(pulled),
                                       got=[x for x in out if x in ('_INDENT', '_DEDENT')], want=ts)
    return True


def stream(hist: int, ix: List[int]) -> bool:
    """
    pre: 0 <= hist <= 2 and len(ix) <= L and hist == PIN_HIST and (PIN is None or (len(ix) >= 1 and ix[0] == PIN) or (len(ix) == 0 and PIN == 0))
    post: _
    """
    return hs.run_path(_stream_body, (hist, ix), corner=lambda h, ix: len(ix) == L and hs.sel(ix[L - 1], NK) == NK - 1)


# ---------------------------------------------------------------------------------------------------------------------
# The shipped pair: lark/grammars/python.lark (its _NEWLINE terminal carries the indentation) + PythonIndenter (tab_len 8)
PY_INDENTS = ['', '  ', '\t', ' \t', '        ', '  \f  ']      # a form feed resets the column (CPython); the text before it does not count
PY_LINES = ['if x:', 'pass', 'f(', ')', '', '# c']

if P and P.get('kind') == 'py':
    from lark import Lark
    from lark.indenter import PythonIndenter
    from lark.exceptions import UnexpectedInput
    PYLARK = Lark.open_from_package('lark', 'python.lark', ['grammars'], parser='lalr', lexer='basic', postlex=PythonIndenter(), start='file_input')
    PYLEXER = hs.basic_lexer_of(PYLARK)
    NPL = len(PY_INDENTS) * len(PY_LINES)
    PIN_PY = P.get('pin')
    PIN_PY2 = P.get('pin2')


def _py_reference(lines, ff_quirk=False):
    """Events of the source lines by CPython's algorithm with the documented width metric (a tab counts tab_len = 8 columns):
    'I' / 'D' before the first token of a logical line, ('L', n) for physical line n carrying tokens, 'D's at the end."""
    out = []
    stack = [0]
    paren = 0
    for n, (ind, body) in enumerate(lines, 1):
        if body in ('', '# c'):
            if ff_quirk and '\f' in ind and paren == 0:
                # (only to attribute a mismatch to the recorded finding) python.lark's _NEWLINE token stops at a form feed, so a blank
                # or comment-only line whose indentation holds one yields a newline token of its own, with the indentation before it
                w = ind.split('\f')[0].count(' ') + 8 * ind.split('\f')[0].count('\t')
                if w > stack[-1]:
                    stack.append(w)
                    out.append('I')
                else:
                    while w < stack[-1]:
                        stack.pop()
                        out.append('D')
                    if w != stack[-1]:
                        return out, 'DedentError'
            continue                                   # blank and comment-only lines do not take part
        if paren == 0:
            ind = ind.rsplit('\f', 1)[-1]
            w = ind.count(' ') + 8 * ind.count('\t')
            if w > stack[-1]:
                stack.append(w)
                out.append('I')
            else:
                while w < stack[-1]:
                    stack.pop()
                    out.append('D')
                if w != stack[-1]:
                    return out, 'DedentError'
        out.append(('L', n))
        if body == 'f(':
            paren += 1
        elif body == ')':
            paren -= 1
            if paren < 0:
                return out, 'unbalanced'
    while len(stack) > 1:
        stack.pop()
        out.append('D')
    return out, None


def _py_tokenize(text):
    out = []
    try:
        for t in tokenize.generate_tokens(io.StringIO(text).readline):
            if t.type == tokenize.INDENT:
                out.append('I')
            elif t.type == tokenize.DEDENT:
                out.append('D')
    except (tokenize.TokenError, IndentationError, SyntaxError):
        return 'error'
    return out


def _py_body(rec, ls):
    lines = []
    for k in range(len(ls)):
        if k == 0:
            v = hs.sel(ls[0], len(PY_LINES))            # the first line is not indented (no newline token precedes it)
            lines.append(('', PY_LINES[v]))
        else:
            v = hs.sel(ls[k], NPL)
            lines.append((PY_INDENTS[v // len(PY_LINES)], PY_LINES[v % len(PY_LINES)]))
    with hs.untraced():
        # realised: the text goes through re (a C extension realises it anyway); the solver owns the enumeration of line structures
        text = ''.join(i + b + '\n' for i, b in lines)
        rec['key'] = text
        rec['nontrivial'] = len(lines) > 1
        want, werr = _py_reference(lines)
        rec['count'] = {'texts': 1, 'dedent_errors': int(werr == 'DedentError')}
        if werr == 'unbalanced':
            return True
        got = []
        err = None
        try:
            for t in PythonIndenter().process(hs.lex_tokens(PYLEXER, text)):
                if t.type == '_INDENT':
                    got.append('I')
                elif t.type == '_DEDENT':
                    got.append('D')
                elif t.type != '_NEWLINE' and (not got or got[-1] != ('L', t.line)):
                    got.append(('L', t.line))
        except DedentError:
            err = 'DedentError'
        except AssertionError:
            err = 'unbalanced'          # a close bracket that was never opened (lark asserts); the reference stops there too
        if (err, got) != (werr, want):
            want2, werr2 = _py_reference(lines, ff_quirk=True)
            if (err, got) == (werr2, want2):
                rec['fkey'] = 'py:formfeed-in-blank-line-indentation'
                return hs.fail(rec, 'INDENT/DEDENT structure of python.lark + PythonIndenter differs from the reference (form feed in a blank line)', text=text,
                               got=got, want=want, ended=[err, werr])
        if err != werr:
            return hs.fail(rec, 'python.lark + PythonIndenter ended with %s, reference: %s' % (err, werr), text=text)
        if werr == 'DedentError':
            # the error is not an input error the parser may recover from: parse() raises it also with an on_error handler
            first = None
            try:
                PYLARK.parse(text)
            except DedentError:
                first = 'dedent'
            except UnexpectedInput:
                first = 'other'
            if first == 'dedent':
                rec['count']['on_error_checked'] = 1
                try:
                    PYLARK.parse(text, on_error=lambda e: True)
                    swallowed = True
                except DedentError:
                    swallowed = False
                except UnexpectedInput:
                    swallowed = True
                if swallowed:
                    return hs.fail(rec, 'parse(on_error=...) swallowed the DedentError', text=text)
        if got != want:
            return hs.fail(rec, 'INDENT/DEDENT structure of python.lark + PythonIndenter differs from the reference', text=text, got=got, want=want)
        # the real tokenizer where its width metric (tab to the next multiple of 8) coincides with the documented one (tabs first)
        if werr is None and all(' \t' not in i for i, _ in lines) and sum(b == 'f(' for _, b in lines) == sum(b == ')' for _, b in lines):
            ts = _py_tokenize(text)
            if ts != 'error':
                rec['count']['vs_tokenize'] = 1
                if [x for x in got if x in ('I', 'D')] != ts:
                    return hs.fail(rec, 'INDENT/DEDENT sequence differs from the tokenize module', text=text, got=[x for x in got if x in ('I', 'D')], want=ts)
    return True


def py(ls: List[int]) -> bool:
    """
    pre: 1 <= len(ls) <= L and (PIN_PY is None or ls[0] == PIN_PY) and (PIN_PY2 is None or (len(ls) >= 2 and ls[1] == PIN_PY2))
    post: _
    """
    return hs.run_path(_py_body, (ls,), corner=lambda ls: len(ls) == L and hs.sel(ls[L - 1], NPL) == NPL - 1)


if P:
    PIN = P.get('pin')
    PIN_HIST = P.get('hist', 0)


def plan(tier, seed):
    quick = tier == 'quick'
    slices = []
    for depth in (1, 2, 3, 4, 5, 6):
        for blanks in (0, 2):
            slices.append({'id': 'step:depth%d:blanks%d' % (depth, blanks), 'func': 'step', 'params': {'kind': 'step', 'depth': depth, 'blanks': blanks},
                           'timeout': 300 if quick else 1200, 'twin': depth == 6,
                           'bound': {'stack_depth': depth, 'stack_values': 'unbounded ints', 'indent_chars': 4, 'blank_lines': blanks, 'tab_len': 'unbounded int >= 1'}})
    L = 4 if quick else 5
    for hist in (0, 1, 2):
        Lh = L if hist == 0 else L - 1
        for pin in range(len(KINDS)):
            slices.append({'id': 'stream:hist%d:L%d:pin%d' % (hist, Lh, pin), 'func': 'stream', 'params': {'kind': 'stream', 'L': Lh, 'pin': pin, 'hist': hist},
                           'timeout': 240 if quick else 3000, 'twin': pin == len(KINDS) - 1, 'bound': {'tokens': Lh, 'kinds': len(KINDS)}})
    Lp = 3 if quick else 4
    for pin in range(len(PY_LINES)):
        slices.append({'id': 'py:lines3:first%d' % pin, 'func': 'py', 'mode': 'realised', 'params': {'kind': 'py', 'L': 3, 'pin': pin}, 'timeout': 400,
                       'twin': pin == 0, 'bound': {'lines': 3, 'indentations': PY_INDENTS, 'line_kinds': PY_LINES}})
        if not quick and pin in (0, 2):
            # four lines after a block opener / an open bracket, partitioned by the first two
            for pin2 in range(len(PY_INDENTS) * len(PY_LINES)):
                slices.append({'id': 'py:lines4:first%d:second%d' % (pin, pin2), 'func': 'py', 'mode': 'realised', 'params': {'kind': 'py', 'L': 4, 'pin': pin, 'pin2': pin2},
                               'timeout': 600, 'twin': False, 'bound': {'lines': 4, 'indentations': PY_INDENTS, 'line_kinds': PY_LINES}})
    meta = {
        'rule': 'step: one path per (stack depth, indentation spelling, order relation between the symbolic indentation and the symbolic stack entries); '
                'stream: one path per token stream (lazily realised); non-trivial = contains a newline token',
        'technique': 'CrossHair symbolic execution of the real Indenter (inductive step from an arbitrary symbolic state; bounded streams)',
        'functions_encoded': ['lark.indenter.Indenter.handle_NL', 'lark.indenter.Indenter._process', 'lark.indenter.Indenter.process', 'lark.indenter.PythonIndenter', 'lark/grammars/python.lark (_NEWLINE, brackets, %ignore) through BasicLexer'],
        'bounds': {'step': 'stack depth <= 6, values unbounded, indentation <= 4 chars over {space, tab}, tab_len unbounded', 'stream_tokens': L},
        'outside_bounds': ['indentation of the first line (no newline token precedes it)', 'streams with a close bracket that was never opened (lark asserts; the parser rejects the token first)'],
        'stubs_and_assumes': ['step: `fmt % args` with symbolic ints returns fmt unformatted (the DedentError message would realise the symbolic column)', 'tokens are built directly (drive the unit); the newline terminal is the usual (\\n[\\t ]*)+ shape: the indentation is what follows the last newline'],
    }
    return {'slices': slices, 'meta': meta}
