"""C04 - ambiguity='explicit' enumerates exactly all derivations."""
from vfw import corpus

PROPERTY = 'C04'
WHAT = 'explicit'

TOK_G = ['expr', 'dangling', 'nullamb', 'rr_prio', 'amb_inl', 'amb_mid', 'amb_exp1', 'amb_alias', 'amb_null', 'amb_nested_inl', 'amb_nested_inl2', 'shape4', 'shape1', 'hidden_lrec',
         'nullchain', 'ebnf', 'unitcycle', 'cycle2', 'ss', 'amb4', 'amb4n', 'amb_shared_inl']
# the same with maybe_placeholders off (another child-filter class builds the trees)
TOK_G_MPOFF = ['amb_shared_inl', 'amb_inl', 'amb_nested_inl', 'amb_exp1']
TXT_G = [('collide', 'dynamic'), ('collide', 'dynamic_complete'), ('nulltxt', 'dynamic_complete'), ('nulltxt', 'dynamic'), ('opttail', 'dynamic_complete'), ('opttail', 'dynamic'),
         ('ignstart', 'dynamic'), ('ignstart', 'dynamic_complete'), ('twostart', 'dynamic'), ('twostart', 'dynamic_complete')]
TXT_K = {'collide': 5, 'nulltxt': 6, 'opttail': 6, 'ignstart': 4, 'twostart': 3}


def make_plan(what, tier, seed):
    quick = tier == 'quick'
    L = 4 if quick else 5
    slices = []
    budget = 80 if quick else 1200
    for g in TOK_G:
        K = len(corpus.TOK[g]['names'])
        Lg = L + 1 if K <= 2 else L
        est = min(sum(K ** n for n in range(Lg + 1)), 60 * Lg * K) * 0.6
        pins = [None] if est <= budget else list(range(K))
        for pin in pins:
            slices.append({'id': '%s:tok:%s:L%d%s' % (what, g, Lg, '' if pin is None else ':pin%d' % pin), 'module': 'vfw.harness.amb',
                           'params': {'what': what, 'level': 'tok', 'g': g, 'L': Lg, 'pin': pin},
                           'timeout': int((est if pin is None else est / K * 1.5) * 3 + 60), 'twin': pin in (None, 0), 'bound': {'tokens': Lg, 'kinds': K}})
    for g in TOK_G_MPOFF:
        K = len(corpus.TOK[g]['names'])
        Lg = L + 1 if K <= 2 else L
        slices.append({'id': '%s:tok:%s:mp-off:L%d' % (what, g, Lg), 'module': 'vfw.harness.amb', 'params': {'what': what, 'level': 'tok', 'g': g, 'L': Lg, 'pin': None, 'mp': False},
                       'timeout': 400 if quick else 2400, 'twin': False, 'bound': {'tokens': Lg, 'kinds': K, 'maybe_placeholders': False}})
    for g, lexer in TXT_G:
        K = TXT_K[g]
        Lt = (3 if quick else 4) + (1 if g in ('opttail', 'ignstart') else 0)
        est = sum(K ** n for n in range(Lt + 1)) * 0.5
        pins = [None] if est <= budget else list(range(K))
        for pin in pins:
            slices.append({'id': '%s:txt:%s:%s:L%d%s' % (what, g, lexer, Lt, '' if pin is None else ':pin%d' % pin), 'module': 'vfw.harness.amb',
                           'params': {'what': what, 'level': 'txt', 'g': g, 'lexer': lexer, 'L': Lt, 'pin': pin},
                           'timeout': int((est if pin is None else est / K) * 3 + 60), 'twin': pin in (None, K - 1), 'bound': {'chars': Lt, 'classes': K}})
    return slices, L, 3 if quick else 4


def plan(tier, seed):
    slices, L, Lt = make_plan(WHAT, tier, seed)
    meta = {
        'rule': 'one path per viable token prefix (+ one rejecting extension) / per class-string; non-trivial = inputs with >= 2 derivations (or any accepted input of a cyclic grammar)',
        'technique': 'CrossHair symbolic execution of the real Earley SPPF construction and explicit-ambiguity tree building vs. the set of all derivations of a reference enumerator',
        'functions_encoded': ['lark.parsers.earley.Parser.predict_and_complete (SPPF)', 'lark.parsers.earley_forest.SymbolNode/PackedNode', 'ForestToParseTree (_ambig, _iambig, cycle retreat)',
                              'lark.parse_tree_builder.AmbiguousExpander/AmbiguousIntermediateExpander', 'lark.visitors.CollapseAmbiguities', 'lark.parsers.xearley (terminal-internal ambiguity)'],
        'bounds': {'tokens': L, 'chars': Lt, 'grammars': len(TOK_G) + len(TXT_G)},
        'outside_bounds': ['longer inputs', 'grammars outside the corpus', 'completeness for cyclic grammars (not promised by the property)'],
        'stubs_and_assumes': ['_ambig nodes are expanded by the harness (cartesian product); CollapseAmbiguities is additionally required to agree when the tree holds no None placeholder '
                              '(it asserts on placeholders: observed, outside the property)'],
    }
    return {'slices': slices, 'meta': meta}
