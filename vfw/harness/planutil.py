"""Slice planning helpers shared by the per-property plan() functions."""
from vfw import corpus


def tok_slices(prefix, g, parser, L, asserts, cost, budget, extra=None, complete=True, timeout_factor=3.0):
    """Slices of the token-level family for one grammar; splits by first token kind when the estimated cost exceeds budget."""
    K = len(corpus.TOK[g]['names'])
    est_paths = min(sum(K ** n for n in range(L + 1)), 40 * L * K)      # lazy realisation prunes rejected prefixes
    pins = [None] if est_paths * cost <= budget else list(range(K))
    out = []
    for pin in pins:
        params = {'g': g, 'parser': parser, 'L': L, 'asserts': asserts, 'complete': complete, 'pin': pin}
        params.update(extra or {})
        tag = ''.join(':%s=%s' % (k, v) for k, v in sorted((extra or {}).items()))
        out.append({'id': '%s:%s:%s:L%d%s%s' % (prefix, g, parser, L, tag, '' if pin is None else ':pin%d' % pin),
                    'module': 'vfw.harness.tok', 'params': params,
                    'timeout': int((est_paths if pin is None else est_paths / K * 1.5) * cost * timeout_factor + 40),
                    'twin': pin in (None, K - 1), 'bound': {'tokens': L, 'kinds': K}})
    return out
