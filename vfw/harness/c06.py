"""C06 - token and tree positions are exact source coordinates.

 L-nl     (E2, z3): for every terminal of an enumerated space of regexp spellings and of the shipped grammars, z3 decides over
          all strings whether some string of the terminal's language contains a newline; if so the real lexer must treat
          the terminal as newline-capable (BasicLexer.newline_types, decided by lexer._regexp_has_newline). A disagreement is
          replayed through the real lexer (witness text -> token coordinates) before it is reported.
 lc_*     (CrossHair, inductive): one LineCounter step from an arbitrary symbolic pre-state.
 e2e      (CrossHair): class-strings through every lexer; every token / tree meta against refsem.posref.
"""
import glob
import itertools
import os
import re
import time
from typing import List

from vfw import hs

PROPERTY = 'C06'
P = hs.params()

ATOMS = ['"a"', '"\\n"', r'/\n/', r'/\s/', r'/\S/', r'/\d/', r'/\D/', r'/\w/', r'/\W/', '/./', '/[^a]/', '/[a-z]/',
         r'/[\x00-\x20]/', r'/[\t-\r]/', r'/\x0a/', r'/\012/', '/./s', '/(?s:.)/', '/[^\\n]/', r'/[\W]/', r'/[\d\D]/', '"A"i',
         r'/\u000a/', r'/[\S]/',
         # ranges with the newline as lower / upper bound, and just missing it on either side
         r'/[\t-\n]/', r'/[\n-\r]/', r'/[\x0b-\r]/', r'/[\x00-\t]/', r'/[^\x00-\t]/']


def spellings(tier):
    out = list(ATOMS)
    for x in ATOMS:
        out.append('%s+' % x)
        out.append('%s~1..2' % x)
    for x, y in itertools.product(ATOMS, repeat=2):
        out.append('%s %s' % (x, y))
        if x < y:
            out.append('%s | %s' % (x, y))
        out.append('%s %s*' % (x, y))
        out.append('%s %s?' % (x, y))
    if tier == 'thorough':
        small = ATOMS[:18]
        for x, y, z in itertools.product(small, repeat=3):
            out.append('(%s | %s)+ %s' % (x, y, z))
            out.append('%s (%s %s)*' % (x, y, z))
            out.append('(%s %s?)~1..2 %s' % (x, y, z))
    return out


def _grammar_terminals():
    """(label, Lark instance) for the shipped grammars and examples."""
    import lark
    from lark import Lark
    root = os.path.dirname(lark.__file__)
    out = []
    gdir = os.path.join(root, 'grammars')
    for fn in sorted(glob.glob(os.path.join(gdir, '*.lark'))):
        src = open(fn).read()
        base = os.path.basename(fn)[:-5]
        names = sorted(set(re.findall(r'^([A-Z_][A-Z_0-9]*)\s*(?:\.\d+)?\s*:', src, re.M)))
        if not names:
            continue
        g = 'start: %s\n%%import %s (%s)\n' % (' | '.join(names), base, ', '.join(names))
        try:
            out.append(('grammars/%s' % base, Lark(g, parser='lalr', lexer='basic', import_paths=[gdir])))
        except Exception as e:
            out.append(('grammars/%s' % base, e))
    exdir = os.path.join(os.path.dirname(root), 'examples')
    for fn in sorted(glob.glob(os.path.join(exdir, '**', '*.lark'), recursive=True)):
        src = open(fn).read()
        names = sorted(set(re.findall(r'^([A-Z_][A-Z_0-9]*)\s*(?:\.\d+)?\s*:', src, re.M)))
        m = re.search(r'^\??!?([a-z_][a-z_0-9]*)\s*(?:\.\d+)?\s*:', src, re.M)
        if not names or not m:
            continue
        try:
            out.append((os.path.relpath(fn, os.path.dirname(root)),
                        Lark.open(fn, parser='earley', lexer='basic', start=m.group(1), keep_all_tokens=True)))
        except Exception as e:
            out.append((os.path.relpath(fn, os.path.dirname(root)), e))
    return out


def _lex_positions_wrong(lk, text):
    """Replay: lex `text` with the real lexer and compare every token's coordinates with the truth."""
    from lark.exceptions import UnexpectedInput
    from vfw.refsem import posref
    bad = []
    try:
        for t in lk.lex(text):
            want = posref.coords(text, t.start_pos) + posref.end_coords(text, t.end_pos, 'basic')
            got = (t.line, t.column, t.end_line, t.end_column)
            if want != got or text[t.start_pos:t.end_pos] != str(t):
                bad.append({'token': [t.type, str(t)], 'start_pos': t.start_pos, 'got': got, 'want': want})
    except UnexpectedInput:
        pass
    return bad


def run_lemma(job):
    import z3
    from lark import Lark
    from vfw import rxz3
    from vfw.alpha import Unsupported
    t0 = time.time()
    universe = range(0x250) if job['tier'] == 'quick' else range(0x3000)
    gflags = job.get('gflags', 0)
    items = []      # (label, lark instance, TerminalDef)
    skipped = []
    if job['kind'] == 'nl_spellings':
        sp = spellings(job['tier'])[job['chunk']::job['nchunks']]
        # history: the same terminals are first compiled under the other global flags in this process (an answer remembered per
        # regexp text would be stale here); construction only, nothing is checked on these instances
        for off in range(0, len(sp), 40):
            part = sp[off:off + 40]
            g = 'start: %s\n' % ' | '.join('T%d' % i for i in range(len(part))) + ''.join('T%d: %s\n' % (i, s) for i, s in enumerate(part))
            try:
                Lark(g, parser='lalr', lexer='basic', g_regex_flags=job.get('other_gflags', 0))
            except Exception:
                pass
        for off in range(0, len(sp), 40):
            part = sp[off:off + 40]
            g = 'start: %s\n' % ' | '.join('T%d' % i for i in range(len(part)))
            g += ''.join('T%d: %s\n' % (i, s) for i, s in enumerate(part))
            try:
                lk = Lark(g, parser='lalr', lexer='basic', g_regex_flags=gflags)
            except Exception as e:
                # build one by one to isolate the offending spelling
                for s in part:
                    try:
                        lk1 = Lark('start: T0\nT0: %s\n' % s, parser='lalr', lexer='basic', g_regex_flags=gflags)
                        items.append((s, lk1, lk1.terminals[0]))
                    except Exception as e1:
                        skipped.append([s, type(e1).__name__])
                continue
            by = {t.name: t for t in lk.terminals}
            for i, s in enumerate(part):
                items.append((s, lk, by['T%d' % i]))
    else:
        for label, lk in _grammar_terminals():
            if isinstance(lk, Exception):
                skipped.append([label, repr(lk)[:200]])
                continue
            for t in lk.terminals:
                items.append(('%s:%s' % (label, t.name), lk, t))
    queries = 0
    solver_s = 0.0
    nl_capable = 0
    unsupported = []
    inconclusive = []
    violations = []
    samples = []
    trs = {}
    for label, lk, t in items:
        rx = t.pattern.to_regexp()
        flags = lk.options.g_regex_flags
        lexer = lk.parser.lexer
        real = t.name in lexer.newline_types
        try:
            key = id(lk)
            if key not in trs:
                trs[key] = rxz3.Translator([(x.pattern.to_regexp(), flags) for x in lk.terminals if _translatable(x.pattern.to_regexp(), flags)],
                                           universe=universe)
            tr = trs[key]
            R = tr.translate(rx, flags)
        except Unsupported as e:
            unsupported.append([label, rx, str(e)])
            continue
        s0 = time.time()
        st, wit = tr.can_contain(R, '\n')
        solver_s += time.time() - s0
        queries += 1
        if st == 'sat':
            nl_capable += 1
            if len(samples) < 3:
                samples.append({'terminal': label, 'regexp': rx, 'flags': flags, 'z3': 'sat', 'witness': wit, 'real_newline_type': real})
            if not real:
                # the real code says "cannot contain a newline": replay witnesses through the real lexer
                blocked = []
                reproduced = None
                for _ in range(4):
                    text = wit + wit
                    bad = _lex_positions_wrong(_solo(lk, t), text)
                    if bad:
                        reproduced = {'text': text, 'bad': bad[:2]}
                        break
                    blocked.append(wit)
                    s0 = time.time()
                    st2, wit = tr.can_contain(R, '\n', block=blocked)
                    solver_s += time.time() - s0
                    queries += 1
                    if st2 != 'sat':
                        break
                if reproduced:
                    violations.append({'fkey': 'nl:%s:%d' % (rx, flags), 'what': 'terminal %s (regexp %r, flags %d) can match a newline but the lexer '
                                       'does not count it: %s' % (label, rx, flags, reproduced), 'regexp': rx, 'flags': flags, 'replay': reproduced})
                else:
                    inconclusive.append([label, rx, 'z3 witness did not reproduce (preferred match avoids the newline)'])
        elif st == 'unsat':
            pass
        else:
            inconclusive.append([label, rx, st])
    status = 'violated' if violations else ('holds' if not inconclusive else 'inconclusive')
    if inconclusive and not violations and all('did not reproduce' in x[2] for x in inconclusive):
        status = 'holds'
    return {'status': status, 'queries': queries, 'solver_s': round(solver_s, 3), 'distinct_nontrivial': nl_capable,
            'counts': {'terminals': len(items), 'newline_capable': nl_capable, 'unsupported': len(unsupported),
                       'skipped': len(skipped), 'witness_not_reproducible': len(inconclusive)},
            'detail': {'unsupported': unsupported[:20], 'skipped': skipped[:20], 'inconclusive': inconclusive[:20]},
            'samples': samples, 'violations': violations[:50], 'n_violations': len(violations)}


def _translatable(rx, flags):
    from vfw import alpha
    try:
        alpha.atoms_of(rx, flags)
        return True
    except Exception:
        return False


_solo_cache = {}


def _solo(lk, t):
    """A basic lexer over just this terminal, built by the real front end from the terminal's own definition."""
    from lark import Lark
    from lark.lexer import BasicLexer
    from lark.common import LexerConf
    key = (id(lk), t.name)
    if key not in _solo_cache:
        conf = LexerConf([t], lk.lexer_conf.re_module, (), None, None, lk.options.g_regex_flags, use_bytes=False)
        lexer = BasicLexer(conf)

        class _L:
            def lex(self, text):
                from lark.lexer import LexerThread
                return LexerThread.from_text(lexer, text).lex(None)
        _solo_cache[key] = _L()
    return _solo_cache[key]


# ---------------------------------------------------------------------------------------------------------------------
# CrossHair conditions

if P:
    from lark.lexer import LineCounter, _TextSlice_WithLineCount
    from lark.utils import TextSlice
    NB = P.get('NB', 6)
    BYTES = P.get('bytes', False)


def _mk(bits):
    s = ''.join('\n' if b else 'a' for b in bits)
    return s.encode() if BYTES else s


def _expected(char_pos, line, lsp, bits_from, upto):
    """Coordinate function: consume bits_from[0:upto] starting at char_pos."""
    nl = 0
    last = -1
    for k in range(upto):
        if bits_from[k]:
            nl += 1
            last = k
    e_line = line + nl
    e_lsp = (char_pos + last + 1) if nl else lsp
    e_pos = char_pos + upto
    return e_line, e_lsp, e_pos, e_pos - e_lsp + 1


def _feed_body(rec, char_pos, line, lsp, bits, test_newline):
    token = _mk(bits)
    has_nl = False
    for b in bits:
        has_nl = has_nl or b
    lc = LineCounter(b'\n' if BYTES else '\n')
    lc.char_pos, lc.line, lc.line_start_pos = char_pos, line, lsp
    lc.column = char_pos - lsp + 1
    lc.feed(token, test_newline or has_nl)
    rec['key'] = [list(bits), test_newline]
    rec['nontrivial'] = len(bits) > 0
    want = _expected(char_pos, line, lsp, bits, len(bits))
    got = (lc.line, lc.line_start_pos, lc.char_pos, lc.column)
    if got != want:
        return hs.fail(rec, 'LineCounter.feed post-state differs from the coordinate function', got=list(got), want=list(want))
    return True


def lc_feed(char_pos: int, line: int, lsp: int, bits: List[bool], test_newline: bool) -> bool:
    """
    pre: 0 <= lsp <= char_pos and line >= 1 and len(bits) <= NB
    post: _
    """
    return hs.run_path(_feed_body, (char_pos, line, lsp, bits, test_newline),
                       corner=lambda cp, ln, ls, b, t: len(b) == NB and b[NB - 1] and not b[0])


def _advance_body(rec, line, bits, a, b):
    # text = prefix (positions < a are summarised by the symbolic pre-state) ; counter sits at offset a of `text`
    n = hs.pick(len(bits), 0, NB)
    a = hs.pick(a, 0, n)
    b = hs.pick(b, a, n)
    text = _mk(bits)
    lsp0 = 0
    for k in range(a):
        if bits[k]:
            lsp0 = k + 1
    lc = LineCounter(b'\n' if BYTES else '\n')
    lc.char_pos, lc.line, lc.line_start_pos = a, line, lsp0
    lc.column = a - lsp0 + 1
    lc.advance_to(text, b)
    rec['key'] = [list(bits), a, b]
    rec['nontrivial'] = b > a
    nl = 0
    last = -1
    for k in range(a, b):
        if bits[k]:
            nl += 1
            last = k
    want = (line + nl, (last + 1) if nl else lsp0, b, b - ((last + 1) if nl else lsp0) + 1)
    got = (lc.line, lc.line_start_pos, lc.char_pos, lc.column)
    if got != want:
        return hs.fail(rec, 'LineCounter.advance_to post-state differs from the coordinate function', got=list(got), want=list(want))
    # from_text_slice: plain slice counts the prefix; snapshot slice resumes
    ts = TextSlice(text, b, n)
    lc2 = LineCounter.from_text_slice(ts)
    nl0 = 0
    last0 = -1
    for k in range(b):
        if bits[k]:
            nl0 += 1
            last0 = k
    want2 = (1 + nl0, last0 + 1, b, b - (last0 + 1) + 1)
    got2 = (lc2.line, lc2.line_start_pos, lc2.char_pos, lc2.column)
    if got2 != want2:
        return hs.fail(rec, 'LineCounter.from_text_slice(plain) differs', got=list(got2), want=list(want2))
    ts3 = _TextSlice_WithLineCount(text, b, n, line, lsp0 if lsp0 <= b else b)
    lc3 = LineCounter.from_text_slice(ts3)
    got3 = (lc3.line, lc3.line_start_pos, lc3.char_pos, lc3.column)
    want3 = (line, ts3.line_start_pos, b, b - ts3.line_start_pos + 1)
    if got3 != want3:
        return hs.fail(rec, 'LineCounter.from_text_slice(snapshot) differs', got=list(got3), want=list(want3))
    return True


def lc_advance(line: int, bits: List[bool], a: int, b: int) -> bool:
    """
    pre: line >= 1 and len(bits) <= NB and 0 <= a <= b <= len(bits)
    post: _
    """
    return hs.run_path(_advance_body, (line, bits, a, b),
                       corner=lambda ln, bt, a, b: len(bt) == NB and a == 1 and b == NB and bt[NB - 1])


def plan(tier, seed):
    quick = tier == 'quick'
    nch = 6 if quick else 14
    lemmas = []
    for gf in (0, int(re.S)):
        for c in range(nch):
            lemmas.append({'name': 'L-nl:spellings:gflags=%d:%d/%d' % (gf, c, nch), 'kind': 'nl_spellings', 'tier': tier, 'chunk': c,
                           'nchunks': nch, 'gflags': gf, 'other_gflags': int(re.S) - gf, 'timeout': 600 if quick else 3000})
    lemmas.append({'name': 'L-nl:shipped-grammars', 'kind': 'nl_grammars', 'tier': tier, 'timeout': 600})
    nb = 8 if quick else 12
    slices = []
    for by in (False, True):
        slices.append({'id': 'lc_feed:NB%d:%s' % (nb, 'bytes' if by else 'str'), 'func': 'lc_feed', 'params': {'NB': nb, 'bytes': by},
                       'timeout': 120 if quick else 1500, 'bound': {'newline_bits': nb, 'pre_state': 'unbounded ints under the representation invariant'}})
        slices.append({'id': 'lc_advance:NB%d:%s' % (4 if quick else 6, 'bytes' if by else 'str'), 'func': 'lc_advance', 'params': {'NB': 4 if quick else 6, 'bytes': by},
                       'timeout': 120 if quick else 1500, 'bound': {'newline_bits': 4 if quick else 6}})
    # end-to-end: class-strings through every lexer
    combos = []
    for g in ('lines', 'nlvia', 'dotall', 'meta1'):
        for parser, lexer, cost in (('lalr', 'basic', 0.06), ('lalr', 'contextual', 0.06), ('earley', 'dynamic', 0.27), ('earley', 'dynamic_complete', 0.3)):
            for by in ((False, True) if g == 'lines' or not quick else (False,)):
                combos.append((g, parser, lexer, by, cost))
    Ks = {'lines': 8, 'nlvia': 8, 'dotall': 7, 'meta1': 7}
    for g, parser, lexer, by, cost in combos:
        Lq = 3 if quick else 4
        k = Ks[g]
        npaths = sum(k ** n for n in range(Lq + 1))
        budget = 45 if quick else 900
        pins = [None] if npaths * cost <= budget else list(range(k))
        for pin in pins:
            sid = 'e2e:%s:%s:%s:%s:L%d%s' % (g, parser, lexer, 'bytes' if by else 'str', Lq, '' if pin is None else ':pin%d' % pin)
            est = (npaths if pin is None else npaths / k) * cost
            slices.append({'id': sid, 'module': 'vfw.harness.txt', 'twin': pin in (None, k - 1),
                           'params': {'g': g, 'parser': parser, 'lexer': lexer, 'bytes': by, 'L': Lq, 'asserts': ['pos'], 'pin': pin},
                           'timeout': int(est * 2.5 + 30), 'bound': {'chars': Lq, 'classes': k}})
    meta = {
        'rule': 'lemma: one z3 query per terminal spelling (non-trivial = newline-capable per z3); slices: one path per (newline bit-vector, '
                'symbolic-integer region) of the LineCounter step',
        'technique': 'z3 regex-theory queries on sre_parse translations of real terminal regexps + CrossHair symbolic execution of LineCounter',
        'functions_encoded': ['lark.lexer._regexp_has_newline', 'lark.lexer.BasicLexer.__init__ (newline_types)', 'lark.lexer.LineCounter.feed',
                              'lark.lexer.LineCounter.advance_to', 'lark.lexer.LineCounter.from_text_slice', 'lark.lexer.BasicLexer.next_token', 'lark.lexer.ContextualLexer.lex', 'lark.parsers.xearley.Parser._parse (positions)',
                              'lark.parse_tree_builder.PropagatePositions'],
        'bounds': {'spellings': len(spellings(tier)) * 2, 'alphabet': 'U+0000-U+024F' if quick else 'U+0000-U+2FFF', 'strings': 'unbounded length (z3 regex theory)',
                   'newline_bits': nb},
        'outside_bounds': ['terminals with anchors/look-around/back-references (reported as unsupported)', 'regex module'],
        'stubs_and_assumes': ['lc_feed: test_newline is true whenever the token contains a newline (caller contract)'],
    }
    return {'slices': slices, 'lemmas': lemmas, 'meta': meta}
