"""C10 - a Lark instance is a pure function of its input: reusable and thread-safe.

 hist  (CrossHair): a symbolic sequence of <= 3 earlier operations on ONE instance - parse of a good / bad text, lex() / scan() /
       parse_interactive() generators consumed part-way and dropped, construction of another Lark, Reconstructor use, (with the
       Indenter post-lexer) a stream that fails with indentation open - followed by a symbolic probe call; the probe's outcome must
       equal that of a fresh instance.
 sched (CrossHair over schedules): two real threads make their FIRST calls on a freshly built instance (parse / lex) while a
       line-level stepper (sys.settrace in the workers, semaphores) hands control from one to the other at the context-switch
       positions given by a symbolic vector; the controller runs under CrossHair, so the solver enumerates every schedule with <= k
       switches over the line steps of the shared-state functions; every thread's result must equal the sequential one.
       Line granularity (not bytecode), preemption-bounded; lexer_callbacks are pure.
"""
import sys
import threading
from typing import List

from vfw import hs

PROPERTY = 'C10'
P = hs.params()

G_PLAIN = '''
start: stmt+
stmt: NAME "=" expr ";" | "if" NAME ":" stmt -> cond
?expr: NAME | NUM | "(" expr ")" | expr "+" NUM -> add
NAME: /[a-z]+/
NUM: /[0-9]+/
%ignore " "
'''
G_INDENT = '''
start: (_NL | stmt)*
stmt: NAME _NL [_INDENT stmt+ _DEDENT] | "(" NAME* ")" _NL
NAME: /[a-z]+/
_NL: /(\\r?\\n[\\t ]*)+/
%ignore /[\\t ]+/
%declare _INDENT _DEDENT
'''
PROBES_PLAIN = ['x = 7 ;', 'x = ( y + 1 ) ;', 'if a : b = 2 ;', 'x = ;', 'x = 7 ; ;', '', 'x = 1 ; y = z + 2 ;', 'x = 7', '= 7 ;', 'ifa = 1 ;', 'if if']
PROBES_INDENT = ['a\n', 'a\n  b\n', 'a\n  b\n c\n', 'a\n  b\n    c\nd\n', '( a\n b )\n', 'a\n  b\n', '', 'a\n\tb\n  c\n', '(\n', 'a\n  b\n  (c\n d)\n']

if P and P.get('kind') == 'hist':
    from lark import Lark, Token
    from lark.indenter import Indenter, DedentError
    from lark.exceptions import UnexpectedInput, LarkError
    from lark.reconstruct import Reconstructor
    CFG = P['cfg']

    class TreeIndenter(Indenter):
        NL_type = '_NL'
        OPEN_PAREN_types = ['LPAR']
        CLOSE_PAREN_types = ['RPAR']
        INDENT_type = '_INDENT'
        DEDENT_type = '_DEDENT'
        tab_len = 8

    def _cb(t):
        return t.update(value=t.value.upper())

    def make():
        if CFG == 'lalr-ctx-callbacks':
            return Lark(G_PLAIN, parser='lalr', lexer='contextual', lexer_callbacks={'NAME': _cb}, propagate_positions=True)
        if CFG == 'lalr-basic':
            return Lark(G_PLAIN, parser='lalr', lexer='basic', maybe_placeholders=False)
        if CFG == 'earley-dynamic':
            return Lark(G_PLAIN, parser='earley', lexer='dynamic')
        if CFG == 'earley-basic':
            return Lark(G_PLAIN, parser='earley', lexer='basic')
        if CFG == 'lalr-multistart':
            return Lark(G_PLAIN, parser='lalr', lexer='contextual', start=['start', 'expr'])
        return Lark(G_INDENT, parser='lalr', lexer='contextual' if CFG == 'indent-ctx' else 'basic', postlex=TreeIndenter())
    INDENT = CFG.startswith('indent')
    PROBES = PROBES_INDENT if INDENT else PROBES_PLAIN
    SHARED = make()
    FRESH = make()
    LALR = CFG.startswith('lalr') or INDENT
    MULTI = CFG == 'lalr-multistart'
    PKW = {'start': 'start'} if MULTI else {}        # probes (and the usual operations) use the first start symbol
    NOPS = 10 if MULTI else 9
    PIN = P.get('pin')
    MAXOPS = P.get('maxops', 3)
    NPROBES = min(P.get('nprobes', len(PROBES)), len(PROBES))

    def _lexed(lk, text):
        try:
            return ('tokens', tuple((t.type, str(t), t.start_pos, t.line, t.column) for t in lk.lex(text)))
        except (UnexpectedInput, DedentError) as e:
            return ('error', type(e).__name__, getattr(e, 'pos_in_stream', None))

    def _outcome(lk, text):
        # the probe observes parse() and lex() of the same text; for LALR also the accepts set of a rejection
        try:
            a = hs.outcome(lk.parse, text, **PKW) if not PKW else hs.outcome(lambda t: lk.parse(t, **PKW), text)
        except DedentError as e:
            a = ('error', 'DedentError', str(e))
        acc = None
        if LALR and not INDENT and a[0] == 'error' and a[1] == 'UnexpectedToken':
            try:
                lk.parse(text, **PKW)
            except UnexpectedInput as e:
                acc = sorted(e.accepts)
        return (a, _lexed(lk, text), acc)
    REF = {}


def _do_op(lk, op):
    good, bad = (PROBES[3 if INDENT else 6], PROBES[7 if INDENT else 3])
    try:
        if op == 0:
            lk.parse(good, **PKW)
        elif op == 1:
            lk.parse(bad, **PKW)
        elif op == 2:
            g = lk.lex(good)
            next(g)
            del g
        elif op == 3:
            if LALR and not INDENT:
                g = lk.scan('zz ' + good + ' !! ' + good, **PKW)
                next(g)
                del g
            else:
                lk.parse(PROBES[1], **PKW)
        elif op == 4:
            if LALR:
                ip = lk.parse_interactive(good, **PKW)
                it = ip.iter_parse()
                next(it)
                next(it)
                del it, ip
            else:
                lk.parse(PROBES[2], **PKW)
        elif op == 5:
            Lark('start: "a" NAME\nNAME: /[a-z]+/\n%ignore " "', parser='lalr').parse('a b')
        elif op == 6:
            if INDENT:
                g = lk.lex('a\n  b\n    ( c\n')      # stops with indentation and a bracket open
                for _ in range(5):
                    next(g)
                del g
            else:
                lk.parse(PROBES[0] + ' ' + bad, **PKW)
        elif op == 7:
            if LALR and not INDENT and CFG not in ('lalr-ctx-callbacks', 'lalr-multistart'):
                Reconstructor(lk).reconstruct(lk.parse(good, **PKW))
            else:
                lk.parse(bad, **PKW)
        elif op == 8:
            list(lk.lex(good, dont_ignore=True))
        elif op == 9:
            # (several start symbols) a rejected parse from the other start symbol whose accepts set is looked at
            try:
                lk.parse('x +', start='expr')
            except UnexpectedInput as e:
                e.accepts
    except (UnexpectedInput, DedentError, StopIteration):
        pass


def _hist_body(rec, ops, pi):
    n = hs.pick(len(ops), 0, MAXOPS)
    seq = [hs.sel(ops[k], NOPS) for k in range(n)]
    pi = hs.sel(pi, NPROBES)
    with hs.untraced():
        # realised: operations and probe are concrete here (nothing symbolic can flow into lark); the solver owns the enumeration of
        # histories. Under the tracer each Lark.lex()/Lark()/Reconstructor() construction costs 1-2 s.
        for op in seq:
            _do_op(SHARED, op)
        got = _outcome(SHARED, PROBES[pi])
        rec['key'] = [seq, pi]
        rec['replay_args'] = [seq, pi]
        rec['nontrivial'] = n > 0
        rec['count'] = {'histories': 1}
        if pi not in REF:
            REF[pi] = _outcome(FRESH, PROBES[pi])
        if got != REF[pi]:
            return hs.fail(rec, 'outcome after the history %s differs from a fresh instance' % seq, probe=PROBES[pi], got=repr(got)[:300], fresh=repr(REF[pi])[:300])
    return True


def hist(ops: List[int], pi: int) -> bool:
    """
    pre: len(ops) <= MAXOPS and (PIN is None or (len(ops) >= 1 and ops[0] == PIN) or (len(ops) == 0 and PIN == 0))
    post: _
    """
    return hs.run_path(_hist_body, (ops, pi), corner=lambda ops, pi: len(ops) == MAXOPS and hs.sel(ops[MAXOPS - 1], NOPS) == NOPS - 1)


# ---------------------------------------------------------------------------------------------------------------------
# Thread schedules

if P and P.get('kind') == 'sched':
    import lark.lexer as _lx
    import lark.lark as _lk
    from lark import Lark, Token
    from lark.exceptions import UnexpectedInput
    SCFG = P['cfg']
    # functions whose lines are preemption points: everything that touches state shared between calls on one instance
    TRACED_FUNCS = {('lexer.py', 'scanner'), ('lexer.py', 'search_scanner'), ('lexer.py', '_build_scanner'), ('lexer.py', 'next_token'), ('lexer.py', 'match'),
                    ('lexer.py', '_get_width'), ('lexer.py', 'min_width'), ('lexer.py', 'max_width'), ('lark.py', '_build_lexer'), ('lexer.py', 'search_start'),
                    ('tree_matcher.py', 'match_tree'), ('lark.py', '_get_parser')}
    if P.get('traceset') == 'forest':
        # the Earley forest-to-tree phase: per-parse objects today; any state shared between parses here is a race
        TRACED_FUNCS = {('earley_forest.py', n) for n in ('visit', 'transform', 'transform_symbol_node', 'transform_intermediate_node', 'transform_packed_node',
                                                           'visit_symbol_node_in', 'visit_packed_node_in', 'visit_packed_node_out', 'visit_symbol_node_out',
                                                           'visit_token_node', '_visit_node_out_helper', '_call_rule_func', '_collapse_ambig', 'on_cycle')}
        TRACED_FUNCS |= {('earley.py', 'parse'), ('parse_tree_builder.py', '__call__')}
    TRACE_ALL = P.get('traceset') == 'all'      # every line of every lark function is a preemption point
    if P.get('traceset') == 'matcher':
        # the terminal matcher shared by all dynamic-Earley parses of an instance, and the scanner loop that calls it
        TRACED_FUNCS = {('parser_frontends.py', 'match'), ('xearley.py', 'scan')}
    GAPS = P.get('gaps', [12, 12])
    PIN1 = P.get('pin1')
    PART = P.get('part')                        # [i, n]: the first switch position is congruent to i modulo n (strided partition of a wide window)

    def _cb(t):
        return t.update(value=t.value.upper())

    def make_shared():
        if SCFG == 'basic-callbacks':
            return Lark(G_PLAIN, parser='lalr', lexer='basic', lexer_callbacks={'NAME': _cb, 'NUM': lambda t: t.update(value='#' + t.value)})
        if SCFG == 'ctx-callbacks':
            return Lark(G_PLAIN, parser='lalr', lexer='contextual', lexer_callbacks={'NAME': _cb})
        if SCFG == 'earley-dynamic':
            return Lark(G_PLAIN, parser='earley', lexer='dynamic')
        if SCFG == 'earley-explicit':
            return Lark(G_PLAIN, parser='earley', lexer='dynamic', ambiguity='explicit')
        if SCFG == 'earley-complete':
            return Lark(G_PLAIN, parser='earley', lexer='dynamic_complete')
        if SCFG == 'cyk':
            return Lark(G_PLAIN, parser='cyk')
        return Lark(G_PLAIN, parser='earley', lexer='basic', lexer_callbacks={'NAME': _cb})
    CALLS = [('parse', 'x = 7 ;'), ('parse', 'if a : b = c + 2 ;'), ('lex', 'x = y ;')]

    def call(lk, c):
        kind, text = c
        try:
            if kind == 'parse':
                return ('tree', hs.deep(lk.parse(text), meta=False))
            return ('tokens', tuple((t.type, t.value) for t in lk.lex(text)))
        except UnexpectedInput as e:
            return ('error', type(e).__name__, e.pos_in_stream)
    SEQ = None
    PAIR = P.get('pair')


class _Stepper:
    """Runs the worker threads one at a time. A worker yields control only at a line event of a traced function, and only when the
    controller's schedule says so: switch number s happens when the *global* step counter reaches sw[s]."""

    def __init__(self, fns, switch_at):
        self.fns = fns
        self.switch_at = list(switch_at)
        self.n = len(fns)
        self.sems = [threading.Semaphore(0) for _ in fns]
        self.done = [False] * self.n
        self.results = [None] * self.n
        self.steps = 0
        self.current = 0
        self.main_sem = threading.Semaphore(0)
        self.errors = []

    def _tracer(self, me):
        def local(frame, event, arg):
            if event == 'line':
                self._maybe_switch(me)
            return local

        def glob(frame, event, arg):
            co = frame.f_code
            fn = co.co_filename
            key = (fn[fn.rfind('/') + 1:], co.co_name)
            if '/lark/' in fn and (TRACE_ALL or key in TRACED_FUNCS):
                return local
            return None
        return glob

    def _maybe_switch(self, me):
        self.steps += 1
        if self.switch_at and self.steps >= self.switch_at[0]:
            self.switch_at.pop(0)
            nxt = self._next_alive(me)
            if nxt is not None and nxt != me:
                self.current = nxt
                self.sems[nxt].release()
                self.sems[me].acquire()

    def _next_alive(self, me):
        for d in range(1, self.n + 1):
            j = (me + d) % self.n
            if not self.done[j]:
                return j
        return None

    def _run(self, me):
        self.sems[me].acquire()
        sys.settrace(self._tracer(me))
        try:
            self.results[me] = self.fns[me]()
        except BaseException as e:      # noqa
            self.results[me] = ('exception', type(e).__name__, str(e)[:200])
        finally:
            sys.settrace(None)
            self.done[me] = True
            nxt = self._next_alive(me)
            if nxt is None:
                self.main_sem.release()
            else:
                self.current = nxt
                self.sems[nxt].release()

    def run(self):
        ts = [threading.Thread(target=self._run, args=(i,), daemon=True) for i in range(self.n)]
        for t in ts:
            t.start()
        self.sems[0].release()
        if not self.main_sem.acquire(timeout=30):
            return None
        for t in ts:
            t.join(timeout=5)
        return self.results


def _sched_body(rec, sw, ca, cb):
    # realise the schedule: strictly increasing switch positions within [1, MAXSTEP]
    k = hs.pick(len(sw), 0, len(GAPS))
    pos = []
    last = 0
    for i in range(k):
        if i == 0 and PART is not None:
            d = 1 + PART[0] + PART[1] * hs.sel(sw[i], (GAPS[i] - PART[0] + PART[1] - 1) // PART[1])
        else:
            d = 1 + hs.sel(sw[i], GAPS[i])
        last += d
        pos.append(last)
    if PAIR is not None:
        ca, cb = PAIR
    else:
        ca = hs.sel(ca, len(CALLS))
        cb = hs.sel(cb, len(CALLS))
    with hs.untraced():
        # the worker threads are real threads running untraced by CrossHair; only the schedule is symbolic
        rec['key'] = [pos, ca, cb]
        rec['nontrivial'] = k > 0
        rec['count'] = {'schedules': 1}
        lk = make_shared()
        st = _Stepper([lambda: call(lk, CALLS[ca]), lambda: call(lk, CALLS[cb])], pos)
        res = st.run()
        if res is None:
            return hs.fail(rec, 'threads did not finish (deadlock or hang) under schedule %s' % pos, calls=[CALLS[ca], CALLS[cb]])
        seq = make_shared()
        want = [call(seq, CALLS[ca]), call(seq, CALLS[cb])]
        if list(res) != want:
            rec['fkey'] = 'sched:%s:result-differs' % SCFG if 'exception' not in repr(res) else None
            if rec['fkey'] is None:
                del rec['fkey']
            return hs.fail(rec, 'concurrent first calls under schedule %s give a different result than sequential calls' % pos, calls=[CALLS[ca], CALLS[cb]],
                           concurrent=repr(res)[:400], sequential=repr(want)[:400])
    return True


def sched(sw: List[int], ca: int, cb: int) -> bool:
    """
    pre: len(sw) <= len(GAPS) and (PIN1 is None or (len(sw) >= 1 and sw[0] == PIN1) or (len(sw) == 0 and PIN1 == 0))
    post: _
    """
    return hs.run_path(_sched_body, (sw, ca, cb), corner=lambda sw, ca, cb: len(sw) == len(GAPS))


def plan(tier, seed):
    quick = tier == 'quick'
    slices = []
    for cfg in ('lalr-ctx-callbacks', 'lalr-basic', 'earley-dynamic', 'earley-basic', 'indent-ctx', 'indent-basic', 'lalr-multistart'):
        deep = not quick and cfg in ('lalr-basic', 'earley-dynamic', 'indent-ctx')       # thorough: four operations for three configurations
        for pin in range(10 if cfg == 'lalr-multistart' else 9):
            slices.append({'id': 'hist:%s:ops<=%d:first%d' % (cfg, 4 if deep else 3, pin), 'func': 'hist',
                           'params': {'kind': 'hist', 'cfg': cfg, 'pin': pin, 'maxops': 4 if deep else 3, 'nprobes': 6 if (quick or deep) else 11}, 'mode': 'realised', 'timeout': 400 if not deep else 3000,
                           'twin': pin == 8 and cfg == 'lalr-basic', 'bound': {'ops': 4 if deep else 3, 'op_kinds': 9, 'probes': 6 if (quick or deep) else 11}})
    # schedules: (configuration, pair of first calls, gap windows between consecutive context switches, in line steps)
    plans = [('earley-dynamic', [0, 1], [60], 'forest'), ('earley-callbacks', [1, 0], [60, 20], 'forest'), ('earley-explicit', [0, 1], [60], 'forest'),
             ('basic-callbacks', [0, 1], [8, 40, 3]), ('basic-callbacks', [0, 2], [8, 40, 3]), ('basic-callbacks', [0, 1], [24, 24]),
             ('ctx-callbacks', [0, 1], [10, 30, 3]), ('ctx-callbacks', [1, 2], [24, 24]), ('earley-callbacks', [0, 1], [8, 40, 3]),
             ('earley-dynamic', [0, 1], [30, 8, 8], 'matcher')]
    if not quick:
        plans += [('basic-callbacks', [0, 1], [12, 45, 12]), ('basic-callbacks', [2, 2], [12, 45, 12]), ('ctx-callbacks', [0, 1], [12, 45, 12]),
                  ('earley-callbacks', [0, 2], [12, 45, 12]), ('basic-callbacks', [0, 1], [6, 30, 4, 6])]
    # one context switch anywhere: every line of every lark function is a preemption point (the other call then runs to completion)
    wide = [('earley-dynamic', [0, 1], 3600), ('ctx-callbacks', [1, 0], 1800)]
    if not quick:
        wide += [('earley-dynamic', [1, 0], 6600), ('earley-complete', [0, 1], 3600), ('earley-explicit', [1, 0], 6600), ('earley-callbacks', [0, 1], 3800), ('basic-callbacks', [0, 1], 1000),
                 ('basic-callbacks', [2, 1], 1200), ('ctx-callbacks', [0, 2], 1100), ('cyk', [0, 1], 1500)]
    for cfg, pair, window in wide:
        nparts = 8 if quick else 16
        for i in range(nparts):
            slices.append({'id': 'sched:%s:all-lines:calls%s:window%d:part%d/%d' % (cfg, pair, window, i, nparts), 'func': 'sched', 'mode': 'realised',
                           'params': {'kind': 'sched', 'cfg': cfg, 'pair': pair, 'gaps': [window], 'part': [i, nparts], 'traceset': 'all'}, 'timeout': 600 if quick else 3000,
                           'twin': i == 0, 'bound': {'context_switches': 1, 'threads': 2, 'granularity': 'line steps of all lark functions', 'window': window}})
    for pl in plans:
        cfg, pair, gaps = pl[:3]
        traceset = pl[3] if len(pl) > 3 else 'lexer'
        npaths = 1
        for g in gaps:
            npaths *= g
        pins = [None] if npaths * 0.07 < (60 if quick else 1500) else list(range(gaps[0]))
        for pin in pins:
            slices.append({'id': 'sched:%s:%s:calls%s:gaps%s%s' % (cfg, traceset, pair, gaps, '' if pin is None else ':first%d' % pin), 'func': 'sched', 'mode': 'realised',
                           'params': {'kind': 'sched', 'cfg': cfg, 'pair': pair, 'gaps': gaps, 'pin1': pin, 'traceset': traceset}, 'timeout': 600 if quick else 3000,
                           'twin': pin in (None, 0) and gaps == [8, 40, 3] and pair == [0, 1] and cfg == 'basic-callbacks',
                           'bound': {'context_switches': len(gaps), 'threads': 2, 'granularity': 'line steps of the %s functions' % ('Earley forest-to-tree' if traceset == 'forest' else 'shared-state lexer'), 'gap_windows': gaps}})
    meta = {
        'rule': 'hist: one path per (operation sequence, probe); sched: one path per (switch positions, pair of calls)',
        'technique': 'CrossHair symbolic execution of call histories on one instance; CrossHair-enumerated preemption-bounded thread schedules over a line-level stepper',
        'functions_encoded': ['lark.lark.Lark.parse/lex/scan/parse_interactive', 'ParsingFrontend._make_lexer_thread', 'LexerState', 'BasicLexer.scanner/search_scanner/_build_scanner/next_token',
                              'ContextualLexer.lex', 'Indenter.process', '_Parser.parse', 'lark.reconstruct.Reconstructor', 'lark.tree_matcher.TreeMatcher'],
        'bounds': {'history_ops': 3 if quick else 4, 'context_switches': '2-3 (quick), up to 4 (thorough), inside the stated gap windows', 'threads': 2},
        'outside_bounds': ['bytecode-level races inside one line', 'free-threaded builds', 'more than 2 threads / more switches', 'user callbacks with state'],
        'stubs_and_assumes': ['worker threads run untraced by CrossHair; only the schedule (switch positions) is symbolic', 'lexer_callbacks are pure functions'],
    }
    return {'slices': slices, 'meta': meta}
