"""Ambiguity harness family (C04 explicit trees, C20 forests).

Symbolic input: token-kind list (lazily realised) or class-string. Real code: Earley SPPF construction, ForestToParseTree in
explicit mode (_ambig/_iambig, AmbiguousExpander, AmbiguousIntermediateExpander, cycle retreat), TreeForestTransformer,
ForestVisitor/ForestTransformer walks. Oracle: the set of all derivations (refsem.cfg) shaped (C04) or unshaped (C20); for cyclic
grammars each produced tree is checked directly to be a derivation tree, and walks must terminate (watchdog) reporting cycles."""
from typing import List

from vfw import hs, corpus, alpha
from vfw.refsem import cfg, shape

P = hs.params()

if P:
    from lark import Lark, Tree, Token
    from lark.exceptions import UnexpectedInput
    from lark.visitors import CollapseAmbiguities
    from lark.parsers.earley_forest import (TreeForestTransformer, ForestVisitor, ForestTransformer, ForestSumVisitor, SymbolNode)

    WHAT = P['what']            # 'explicit' | 'forest'
    TEXT = P.get('level') == 'txt'
    L = P['L']
    PIN = P.get('pin')
    if TEXT:
        ENTRY = corpus.TXT[P['g']]
        GRAMMAR = ENTRY['g']
        LEXER = P['lexer']
        BNF = cfg.BNF(GRAMMAR)
        LARK = Lark(GRAMMAR.render(), parser='earley', lexer=LEXER, ambiguity=WHAT)
        PART = alpha.partition(alpha.terminal_patterns(LARK))
        REPS = PART.reps(hs.SEED)
        K = PART.K
        RX = cfg.text_regexps(GRAMMAR, BNF)
        MODE = 'complete' if LEXER == 'dynamic_complete' else 'longest'
    else:
        ENTRY = corpus.TOK[P['g']]
        GRAMMAR = ENTRY['g']
        NAMES = ENTRY['names']
        K = len(NAMES)
        MP = P.get('mp', True)
        BNF = cfg.BNF(GRAMMAR, maybe_placeholders=MP)
        LARK = Lark(GRAMMAR.render(), parser='earley', lexer=hs.make_list_lexer(NAMES), ambiguity=WHAT, maybe_placeholders=MP)
    CYCLIC = BNF.is_cyclic()
    # the forest of some other accepted input: one transformer / visitor object used on it first must work on the next forest as a fresh one does
    OTHER_ROOT = None
    if WHAT == 'forest' and not CYCLIC:
        import itertools as _it
        for _n in (2, 1, 3):
            for _w in _it.product(range(K), repeat=_n):
                try:
                    OTHER_ROOT = LARK.parse(hs.class_string(list(_w), REPS) if TEXT else list(_w))
                    break
                except UnexpectedInput:
                    continue
            if OTHER_ROOT is not None:
                break
    PLAIN = cfg.is_plain(BNF)
    BNF_ONLY = not any(r.helper for r in BNF.rules.values())

    class CountingVisitor(ForestVisitor):
        def __init__(self, single_visit=False):
            super().__init__(single_visit)
            self.cycles = 0
            self.nodes = 0

        def visit_symbol_node_in(self, node):
            self.nodes += 1
            return node.children

        def visit_packed_node_in(self, node):
            self.nodes += 1
            return node.children

        def on_cycle(self, node, path):
            self.cycles += 1

    class SingleNodeVisitor(ForestVisitor):
        """visit_*_in may return a single node instead of an iterable (documented): always descends into one child only."""
        def __init__(self):
            super().__init__()
            self.cycles = 0
            self.steps = 0

        def visit_symbol_node_in(self, node):
            self.steps += 1
            if self.steps > 20000:
                raise hs.HarnessTimeout('forest walk did not terminate (step budget)')
            for c in node.children:
                return c

        def visit_packed_node_in(self, node):
            self.steps += 1
            if self.steps > 20000:
                raise hs.HarnessTimeout('forest walk did not terminate (step budget)')
            for c in (node.left, node.right):
                if c is not None and isinstance(c, SymbolNode):
                    return c
            return []

        def on_cycle(self, node, path):
            self.cycles += 1

    class CountingTransformer(ForestTransformer):
        def __init__(self):
            super().__init__()
            self.cycles = 0

        def on_cycle(self, node, path):
            self.cycles += 1
            super().on_cycle(node, path)


def _canon(t):
    return repr(shape.erase_types(t))


def _pos_lark(t):
    """Unshaped lark tree with every token as (value, start offset): at text level two derivations may differ only in where a token
    was matched (ignored text before or after it)."""
    if isinstance(t, Tree):
        return (str(t.data),) + tuple(_pos_lark(c) for c in t.children)
    if isinstance(t, Token):
        return ('tok', t.value, t.start_pos)
    return repr(t)


def _pos_deriv(node, inp):
    if node[0] == 't':
        return ('tok', inp.value(node[4], node[5]), node[4])
    _, alt, children, i, j = node
    return (alt.alias or alt.rule.label,) + tuple(_pos_deriv(c, inp) for c in children if c[0] != 'none')


def _body(rec, xs):
    if TEXT:
        inp_arg = hs.class_string(xs, REPS)
    else:
        inp_arg = xs
    res = exc = None
    with hs.watchdog():
        try:
            res = LARK.parse(inp_arg)
        except UnexpectedInput as e:
            exc = e
    if exc is not None:
        with hs.untraced():
            rec['key'] = [inp_arg if TEXT else list(hs.CUR['kinds']), False]
            rec['nontrivial'] = False
        return True
    trees = None
    resolved = None
    info = {}
    with hs.watchdog():
        if WHAT == 'explicit':
            trees = shape.expand_ambig(res)
        else:
            root = res
            t = TreeForestTransformer(resolve_ambiguity=False).transform(root)
            trees = shape.expand_ambig(t)
            if OTHER_ROOT is not None:
                shared = TreeForestTransformer(resolve_ambiguity=False)
                shared.transform(OTHER_ROOT)
                info['reuse_differs'] = shared.transform(root) != t
            resolved = TreeForestTransformer(resolve_ambiguity=True).transform(root)
            info['is_ambiguous'] = bool(root.is_ambiguous)
            for sv in (False, True):
                v = CountingVisitor(single_visit=sv)
                v.visit(root)
                info['cycles_%s' % sv] = v.cycles
            snv = SingleNodeVisitor()
            snv.visit(root)
            info['single_cycles'] = snv.cycles
            ct = CountingTransformer()
            try:
                ct.transform(root)
            except Exception as e:       # the default transformer may refuse cycles; it must do so by an exception, not by looping
                info['transform_exc'] = type(e).__name__
            info['tcycles'] = ct.cycles
            sv = ForestSumVisitor()
            sv.visit(root)
    with hs.untraced():
        if TEXT:
            text = inp_arg
            inp = cfg.TextInput(text, RX, ignore=GRAMMAR.ignore, mode=MODE)
            key_in = text
        else:
            kinds = list(hs.CUR['kinds'])
            inp = cfg.TokenInput(kinds)
            key_in = kinds
        rec['key'] = [key_in, True]
        got = [shape.of_lark(x) for x in trees]
        recog = cfg.Recognizer(BNF, inp)
        rec['count'] = {'accepted': 1, 'trees': len(got)}
        if CYCLIC:
            rec['nontrivial'] = True
            if PLAIN and not TEXT:
                for x in got:
                    if not cfg.is_derivation_tree(BNF, x, kinds):
                        return hs.fail(rec, 'a tree in the result is not a derivation of the input (cyclic grammar)', input=key_in, tree=x)
            if WHAT == 'forest':
                rec['count']['cycles_reported'] = info.get('cycles_False', 0)
            return True
        ds = recog.derivations(limit=20000)
        if WHAT == 'explicit':
            want = {_canon(shape.shape_root(d, inp)) for d in ds}
        else:
            if not BNF_ONLY:
                return True
            want = {_canon(shape.unshaped(d, inp)) for d in ds}
        rec['nontrivial'] = len(want) > 1
        rec['count']['ambiguous'] = int(len(want) > 1)
        gotset = {_canon(x) for x in got}
        if gotset != want:
            return hs.fail(rec, 'expanded result differs from the set of derivations', input=key_in, missing=sorted(want - gotset)[:3],
                           extra=sorted(gotset - want)[:3])
        if WHAT == 'forest' and info.get('reuse_differs'):
            return hs.fail(rec, 'a TreeForestTransformer object that transformed another forest first gives a different result than a fresh one', input=key_in)
        if WHAT == 'forest':
            if TEXT:
                # identity of a derivation at text level includes the offsets of its tokens
                gotp = [repr(_pos_lark(x)) for x in trees]
                wantp = {repr(_pos_deriv(d, inp)) for d in ds}
                if set(gotp) != wantp:
                    return hs.fail(rec, 'the derivations in the forest (with token offsets) differ from the set of derivations', input=key_in,
                                   missing=sorted(wantp - set(gotp))[:3], extra=sorted(set(gotp) - wantp)[:3])
                got, gotset = gotp, set(gotp)
            if len(got) != len(gotset):
                return hs.fail(rec, 'the forest encodes a derivation more than once (duplicate alternatives)', input=key_in, trees=len(got), distinct=len(gotset))
            if _canon(shape.of_lark(resolved)) not in want:
                return hs.fail(rec, 'resolve_ambiguity=True tree is not a derivation', input=key_in, tree=shape.of_lark(resolved))
            if len(ds) == 1 and info['is_ambiguous']:
                return hs.fail(rec, 'is_ambiguous on the root although the input has a single derivation', input=key_in)
            if info.get('cycles_False') or info.get('tcycles'):
                return hs.fail(rec, 'on_cycle reported for an acyclic grammar', input=key_in)
        elif WHAT == 'explicit' and not any(c is None for x in trees for c in x.iter_subtrees() for c in c.children):
            # CollapseAmbiguities is the documented way to expand _ambig nodes (it does not support None placeholders)
            ca = {_canon(shape.of_lark(x)) for x in CollapseAmbiguities().transform(res)}
            if ca != want:
                return hs.fail(rec, 'CollapseAmbiguities result differs from the set of derivations', input=key_in)
    return True


def _corner(xs):
    return len(xs) == L and hs.sel(xs[L - 1], K) == (0 if not TEXT else K - 1)


def check(xs: List[int]) -> bool:
    """
    pre: len(xs) <= L and (PIN is None or (len(xs) >= 1 and xs[0] == PIN) or (len(xs) == 0 and PIN == 0))
    post: _
    """
    return hs.run_path(_body, (xs,), corner=_corner)
