"""C16 - embedded transformer equals transforming afterwards; transformer variants agree.

 emb (CrossHair): lexeme-composed texts (symbolic lexeme indices) through Lark(grammar, parser='lalr', transformer=T) and through
     T.transform(Lark(grammar, parser='lalr').parse(text)) for a family of pure transformer classes (plain methods, v_args inline /
     tree / meta-less, terminal callbacks, aliases, template rules, ?-rules, [..] placeholders, ! rules); results must be equal
     (or both reject with the same error class and position).
 var (CrossHair): a symbolic tree shape (pre-order arity vector, labels, leaf token types); Transformer, Transformer_NonRecursive,
     Transformer_InPlace and Transformer_InPlaceRecursive with a call-recording pure callback set: equal results, every callback once
     per node, children before parents.
"""
from typing import List

from vfw import hs

PROPERTY = 'C16'
P = hs.params()

GRAMMAR = '''
start: stmt+
stmt: "let" NAME ["=" expr] ";" -> let
    | seq{expr} ";" -> es
?expr: atom
     | expr "+" atom -> add
     | expr "-" atom
atom: NAME -> var
    | NUM
    | "(" expr ")"
    | list
    | neg
!neg: _TILDE atom
_TILDE: "~"
list: "[" _sep{expr, ","} "]"
_sep{x, s}: x (s x)*
seq{x}: x+
NAME: /[a-z]+/
NUM.2: /[0-9]+/
%ignore " "
'''
LEXEMES = ['let', 'x', '=', '7', ';', '+', '-', '(', ')', '[', ']', ',', 'yy', '~']

if P and P.get('kind') == 'emb':
    from lark import Lark, Transformer, v_args, Token, Tree
    from lark.exceptions import UnexpectedInput
    L = P['L']
    PIN = P.get('pin')
    K = len(LEXEMES)

    class TPlain(Transformer):
        def let(self, c):
            return ('let',) + tuple(c)

        def es(self, c):
            return ('es', c[0])

        def add(self, c):
            return ('add', c[0], c[1])

        def expr(self, c):
            return ('sub', c[0], c[1])

        def var(self, c):
            return ('var', str(c[0]))

        def atom(self, c):
            return ('atom',) + tuple(c)

        def list(self, c):
            return ('list', tuple(c))

        def start(self, c):
            return ('prog', tuple(c))

        def seq(self, c):
            # attached to a template's name; the template's body has a repetition (helper rules must not reach this callback)
            return ('seq', len(c), tuple(c))

    class TTokens(TPlain):
        def NAME(self, t):
            return ('NAME', str(t))

        def NUM(self, t):
            return ('NUM', int(t))

        def _TILDE(self, t):
            # a filtered (underscore) terminal that a ! rule keeps: its callback runs in both ways of transforming
            return ('TILDE', str(t))

    @v_args(inline=True)
    class TInline(Transformer):
        def let(self, name, value):
            return ('let', name, value)

        def es(self, e):
            return ('es', e)

        def add(self, a, b):
            return ('add', a, b)

        def expr(self, a, b):
            return ('sub', a, b)

        def var(self, n):
            return ('var', str(n))

        def atom(self, *c):
            return ('atom',) + c

        def list(self, *c):
            return ('list', c)

        def start(self, *c):
            return ('prog', c)

        def seq(self, *c):
            return ('seq', len(c), c)

        def NUM(self, t):
            return ('NUM', int(t))

    @v_args(tree=True)
    class TTree(Transformer):
        # callbacks reached through aliases (let, es, add, var) and through a template (list) read tree.data
        def let(self, t):
            return (str(t.data), len(t.children), tuple(t.children))

        def add(self, t):
            return (str(t.data),) + tuple(t.children)

        # one function attached under a second name (the usual idiom): tree.data is the rule's / alias' name, not the function's
        es = add

        def var(self, t):
            return (str(t.data), str(t.children[0]))

        def neg(self, t):
            return (str(t.data), len(t.children))

        def list(self, t):
            return ('list', str(t.data), tuple(t.children))

        def seq(self, t):
            return (str(t.data), len(t.children), tuple(t.children))

    class TPartial(Transformer):
        # only some rules have callbacks: the rest stays Tree
        def add(self, c):
            return ('add', c[0], c[1])

        def var(self, c):
            return str(c[0])

        def NAME(self, t):
            return t.update(value=t.value.upper())

    class TBox(Transformer):
        # a terminal callback that returns a Tree whose name has a callback of its own (it must not be transformed again)
        def NUM(self, t):
            return Tree('boxed', [int(t)])

        def NAME(self, t):
            return Tree('var', [Token('NAME', t.value + '_')])

        def boxed(self, c):
            return ('unboxed', c[0])

        def var(self, c):
            return ('var', str(c[0]))

        def add(self, c):
            return ('add', c[0], c[1])

    TRANSFORMERS = [TPlain, TTokens, TInline, TTree, TPartial, TBox]
    LEXER = P.get('lexer', 'contextual')
    PLAIN = Lark(GRAMMAR, parser='lalr', lexer=LEXER)
    EMB = [Lark(GRAMMAR, parser='lalr', lexer=LEXER, transformer=T()) for T in TRANSFORMERS]
    TI = P.get('ti')


def _emb_body(rec, cs, ti):
    ti = hs.sel(ti, len(TRANSFORMERS))
    idx = [hs.sel(c, K) for c in cs]
    text = ' '.join(LEXEMES[i] for i in idx)
    a = b = None
    try:
        a = ('ok', EMB[ti].parse(text))
    except UnexpectedInput as e:
        a = ('error', type(e).__name__, e.pos_in_stream)
    try:
        tree = PLAIN.parse(text)
        b = ('ok', TRANSFORMERS[ti]().transform(tree))
    except UnexpectedInput as e:
        b = ('error', type(e).__name__, e.pos_in_stream)
    with hs.untraced():
        rec['key'] = [text, ti]
        rec['nontrivial'] = b[0] == 'ok' and len(idx) > 0
        rec['count'] = {'texts': 1, 'accepted': int(b[0] == 'ok')}
        if a != b:
            return hs.fail(rec, 'embedded transformer differs from transforming afterwards', text=text, transformer=TRANSFORMERS[ti].__name__,
                           embedded=repr(a)[:300], afterwards=repr(b)[:300])
    return True


def emb(cs: List[int], ti: int) -> bool:
    """
    pre: len(cs) <= L and (TI is None or ti == TI) and (PIN is None or (len(cs) >= 1 and cs[0] == PIN) or (len(cs) == 0 and PIN == 0))
    post: _
    """
    return hs.run_path(_emb_body, (cs, ti), corner=lambda cs, ti: len(cs) == L and hs.sel(cs[L - 1], K) == 4)


# ---------------------------------------------------------------------------------------------------------------------
if P and P.get('kind') == 'var':
    from lark import Tree, Token, v_args
    from lark.visitors import Transformer, Transformer_NonRecursive, Transformer_InPlace, Transformer_InPlaceRecursive
    NN = P['N']
    LABELS = ['a', 'b', 'c']
    LEAVES = ['X', 'Y']

    VT = P.get('visit_tokens', True)

    def make(base, log):
        class Rec(base):
            def a(self, c):
                log.append(('a', len(c)))
                return ('A',) + tuple(c)

            def b(self, c):
                log.append(('b', len(c)))
                return Tree('b2', list(c))

            def X(self, t):
                log.append(('X', str(t)))
                return ('x', str(t))

            def Y(self, t):
                # a Tree whose name (b) has a callback: no variant may transform it again
                log.append(('Y', str(t)))
                return Tree('b', [str(t)])
            # c keeps its default
        return Rec(visit_tokens=VT)
    BASES = [Transformer, Transformer_NonRecursive, Transformer_InPlace, Transformer_InPlaceRecursive]


def _build(arity, labels, leaves):
    """Pre-order construction: node k has arity[k] children (0 = leaf token); stops when the vector is used up."""
    pos = [0]
    leafno = [0]

    def node(depth):
        k = pos[0]
        if k >= len(arity):
            return None
        pos[0] += 1
        ar = arity[k]
        if ar == 0 or depth >= 4:
            t = LEAVES[leaves[k] % 2]
            leafno[0] += 1
            return Token(t, 'v%d' % leafno[0])
        kids = []
        for _ in range(ar):
            c = node(depth + 1)
            if c is None:
                break
            kids.append(c)
        return Tree(LABELS[labels[k] % 3], kids)
    root = node(0)
    if not isinstance(root, Tree):
        root = Tree('a', [root] if root is not None else [])
    return root


def _var_body(rec, ar, rot):
    n = hs.pick(len(ar), 1, NN)
    arity = [hs.sel(ar[k], 3) for k in range(n)]
    rot = hs.sel(rot, 3)
    labels = [(k + rot) % 3 for k in range(n)]     # labels / leaf types follow a rotating pattern (arity x label per node is 9^N shapes)
    results = []
    logs = []
    for base in BASES:
        log = []
        tree = _build(arity, labels, labels)
        res = make(base, log).transform(tree)
        results.append(res)
        logs.append(log)
    with hs.untraced():
        ref_tree = _build(arity, labels, labels)
        rec['key'] = [arity, labels]
        nnodes = len(list(ref_tree.iter_subtrees()))
        rec['nontrivial'] = nnodes > 1
        rec['count'] = {'trees': 1, 'nodes': nnodes}
        for base, r in zip(BASES[1:], results[1:]):
            if r != results[0]:
                return hs.fail(rec, '%s result differs from Transformer' % base.__name__, tree=hs.plain(ref_tree), got=repr(r)[:300], want=repr(results[0])[:300])
        # every callback once per node, children before parents: the multiset of calls is fixed by the tree; order is bottom-up
        want_calls = sorted([(str(t.data), len(t.children)) for t in ref_tree.iter_subtrees() if t.data in ('a', 'b')] +
                            ([(t.type, str(t)) for t in ref_tree.scan_values(lambda v: isinstance(v, Token) and v.type in ('X', 'Y'))] if VT else []))
        for base, log in zip(BASES, logs):
            if sorted(log) != want_calls:
                return hs.fail(rec, '%s: callbacks not called exactly once per node' % base.__name__, tree=hs.plain(ref_tree), calls=log[:12], want=want_calls[:12])
    return True


def var(ar: List[int], rot: int) -> bool:
    """
    pre: 1 <= len(ar) <= NN
    post: _
    """
    return hs.run_path(_var_body, (ar, rot), corner=lambda ar, rot: len(ar) == NN and hs.sel(ar[NN - 1], 3) == 2)


def plan(tier, seed):
    quick = tier == 'quick'
    slices = []
    L = 3 if quick else 4
    for lexer in ('contextual', 'basic'):
        for ti in range(6):
            for pin in range(len(LEXEMES)):
                if lexer == 'basic' and quick and ti not in (1, 5):
                    continue
                slices.append({'id': 'emb:%s:T%d:L%d:pin%d' % (lexer, ti, L, pin), 'func': 'emb', 'params': {'kind': 'emb', 'L': L, 'ti': ti, 'pin': pin, 'lexer': lexer},
                               'timeout': 300 if quick else 2000, 'twin': ti == 0 and pin == 0 and lexer == 'contextual', 'bound': {'lexemes': L, 'kinds': len(LEXEMES)}})
    N = 5 if quick else 7
    slices.append({'id': 'var:N%d' % N, 'func': 'var', 'params': {'kind': 'var', 'N': N}, 'timeout': 600 if quick else 3000, 'bound': {'nodes': N, 'labels': 'rotating pattern x 3 rotations'}})
    # the same with visit_tokens=False: no variant may call a token callback
    slices.append({'id': 'var:N%d:visit_tokens=False' % (N - 1), 'func': 'var', 'params': {'kind': 'var', 'N': N - 1, 'visit_tokens': False}, 'timeout': 600 if quick else 3000,
                   'bound': {'nodes': N - 1, 'visit_tokens': False}})
    meta = {
        'rule': 'emb: one path per (lexeme sequence with lazy pruning by the lexer/parser, transformer class); var: one path per (arity vector, label vector)',
        'technique': 'CrossHair symbolic execution of the real callback plumbing (create_callback, apply_visit_wrapper, inplace transformers, shift-time terminal callbacks) and of the four transformer classes',
        'functions_encoded': ['lark.parse_tree_builder.ParseTreeBuilder.create_callback', 'lark.visitors.Transformer/_NonRecursive/_InPlace/_InPlaceRecursive', 'v_args wrappers',
                              'lark.parser_frontends._get_lexer_callbacks', 'ParserState.feed_token (terminal callbacks)', 'lark.lark.Lark._prepare_callbacks'],
        'bounds': {'lexemes': L, 'tree_nodes': N, 'transformer_classes': 6},
        'outside_bounds': ['Discard', 'meta arguments', '__default__/__default_token__ overrides (excepted by the property)', 'longer inputs'],
        'stubs_and_assumes': ['callbacks are pure; texts are lexeme-composed (well tokenised)'],
    }
    return {'slices': slices, 'meta': meta}
