"""C13 - interactive parser: forks independent, accepts() exact, resume equals parse.

 forks  (CrossHair): symbolic common prefix, symbolic fork kind (copy / __copy__ / as_immutable / as_immutable().as_mutable()), two
        symbolic continuations fed to original and fork in a symbolic interleaving, a snapshot fork that is never fed, accepts()
        called at a symbolic step; every parser must end with the result parse() gives for exactly its own token sequence, and
        accepts() must equal {t : feeding t to a fresh replay succeeds}. All token kinds are realised lazily.
 resume (CrossHair): text attached; after stepping a symbolic number of tokens the parser is forked; resume_parse()/exhaust_lexer()
        on fork and original (symbolic order) must both equal parse(text); from an error state, resume_parse() continues as a parse
        of the remaining input would.
"""
from copy import copy
from typing import List

from vfw import hs
from vfw.refsem.gdsl import Grammar, Rule, Alt, T, N, Opt, Star, Plus, Term, Maybe, L as Lit

PROPERTY = 'C13'
P = hs.params()

A, B, C = T('A'), T('B'), T('C')
GRAMMARS = {
    # two-kind variants (quick tier)
    'inl_lrec2': (Grammar([Rule('start', [[N('_list')]]), Rule('_list', [[N('_list'), N('item')], [N('item')]]),
                           Rule('item', [[A], [B, B]])], declare=['A', 'B']), ['A', 'B']),
    'chain2': (Grammar([Rule('start', [[N('x'), Opt(B)]]), Rule('?x', [[N('y')]]), Rule('y', [[N('z')]]), Rule('z', [[A], [A, A]])],
                       declare=['A', 'B']), ['A', 'B']),
    # the same with an explicit empty alternative: an empty Tree('_items', []) sits on the value stack and is extended in place
    'inl_lrec_empty2': (Grammar([Rule('start', [[N('_items')]]), Rule('_items', [[], [N('_items'), N('item')]]),
                                 Rule('item', [[A], [B, B]])], declare=['A', 'B']), ['A', 'B']),
    # the same with [..] placeholders (the placeholder-aware child filter has its own in-place list reuse)
    'inl_lrec_maybe2': (Grammar([Rule('start', [[N('_items')]]), Rule('_items', [[N('_items'), A, Maybe(B)], [A, Maybe(B)]])], declare=['A', 'B']), ['A', 'B']),
    # left recursion through an inlined rule: ChildFilterLALR reuses the child's list in place
    'inl_lrec': (Grammar([Rule('start', [[N('_list')]]), Rule('_list', [[N('_list'), N('item')], [N('item')]]),
                          Rule('item', [[A], [B, C]])], declare=['A', 'B', 'C']), ['A', 'B', 'C']),
    'mid': (Grammar([Rule('start', [[A, N('start'), B], [C]])], declare=['A', 'B', 'C']), ['A', 'B', 'C']),
    # reductions pending at fork time: a prefix that ends mid-reduction-chain
    'chain': (Grammar([Rule('start', [[N('x'), Opt(B)]]), Rule('?x', [[N('y')]]), Rule('y', [[N('z'), Star(C)]]), Rule('z', [[A], [A, A]])],
                      declare=['A', 'B', 'C']), ['A', 'B', 'C']),
}

# accepts() exactness on automata with merged (LALR) lookaheads: a rejected trial feed may reduce before it fails
X_, Y_, D_, E_, G_, H_ = T('X'), T('Y'), T('D'), T('E'), T('G'), T('H')
ACC_GRAMMARS = {
    'merged': (Grammar([Rule('start', [[X_, N('a'), D_], [X_, N('b'), E_], [Y_, N('a'), G_], [Y_, N('b'), H_]]), Rule('a', [[C]]), Rule('b', [[C]])],
                       declare=['X', 'Y', 'C', 'D', 'E', 'G', 'H']), ['X', 'Y', 'C', 'D', 'E', 'G', 'H']),
    'nullsuffix': (Grammar([Rule('start', [[A, N('o'), N('p')]]), Rule('o', [[B], []]), Rule('p', [[C], []])], declare=['A', 'B', 'C']), ['A', 'B', 'C']),
    'lalr_not_slr': (Grammar([Rule('start', [[N('l'), T('EQ'), N('r')], [N('r')]]), Rule('l', [[T('STAR'), N('r')], [T('ID')]]), Rule('r', [[N('l')]])],
                             declare=['EQ', 'STAR', 'ID']), ['EQ', 'STAR', 'ID']),
}

TEXT_GRAMMAR = '''
start: _list
_list: _list item | item
item: WORD | "(" _list ")" -> group | NUM "!"
WORD: /[a-z]+/
NUM: /[0-9]+/
%ignore " "
'''
TEXT_TOKENS = ['ab', '7!', '(', ')', 'c', '!']      # building blocks of the attached texts

if P and P.get('kind') == 'forks':
    from lark import Lark, Token, Tree
    from lark.exceptions import UnexpectedToken, UnexpectedInput
    G, NAMES = GRAMMARS[P['g']]
    K = len(NAMES)
    if P.get('mut'):
        from lark import Transformer

        class MutT(Transformer):
            # an embedded callback that edits its token in place (the unquoting idiom): every fork owns the tokens on its value stack
            def item(self, c):
                c[0].value = c[0].value + '!'
                return ('item',) + tuple(t.value for t in c)
        LARK = Lark(G.render(), parser='lalr', lexer=hs.make_list_lexer(NAMES), transformer=MutT())
    else:
        LARK = Lark(G.render(), parser='lalr', lexer=hs.make_list_lexer(NAMES))
    LP, LC = P['LP'], P['LC']
    FK = P.get('fork_kind')
    ORD = P.get('order')
    NFK = 4

if P and P.get('kind') == 'acc':
    from lark import Lark, Token, Tree
    from lark.exceptions import UnexpectedToken, UnexpectedInput
    G, NAMES = ACC_GRAMMARS[P['g']]
    K = len(NAMES)
    LARK = Lark(G.render(), parser='lalr', lexer=hs.make_list_lexer(NAMES))
    LA = P['L']

if P and P.get('kind') == 'resume':
    from lark import Lark, Token, Tree
    from lark.exceptions import UnexpectedToken, UnexpectedInput, UnexpectedCharacters
    LEXER = P.get('lexer', 'contextual')
    LARK = Lark(TEXT_GRAMMAR, parser='lalr', lexer=LEXER)
    NT = P['NT']
    RMODE = P.get('rmode')
    RFIRST = P.get('rfirst')
    KT = len(TEXT_TOKENS)


def _tok(name):
    return Token(name, name.lower())


def _reference(seq):
    """parse() of exactly this token sequence (fresh run of the real parser): ('tree', t) or ('error', index)."""
    try:
        return ('tree', LARK.parse([NAMES.index(k) for k in seq]))
    except UnexpectedToken as e:
        return ('error', e.token.start_pos if e.token.type != '$END' else len(seq))


def _fresh_accepts(seq):
    out = set()
    for t in NAMES + ['$END']:
        ip = LARK.parse_interactive()
        try:
            for k in seq:
                ip.feed_token(_tok(k))
            ip.feed_token(Token(t, ''))
        except UnexpectedToken:
            continue
        out.add(t)
    return out


class _Runner:
    """One live parser with its own token sequence; hides the mutable / immutable difference."""

    def __init__(self, ip, seq):
        self.ip, self.seq, self.err = ip, list(seq), None

    def feed(self, name):
        if self.err is not None:
            return
        self.seq.append(name)
        try:
            r = self.ip.feed_token(_tok(name))
            if type(self.ip).__name__ == 'ImmutableInteractiveParser':
                self.ip = r
        except UnexpectedToken:
            self.err = len(self.seq) - 1

    def finish(self):
        if self.err is not None:
            return ('error', self.err)
        try:
            r = self.ip.feed_eof()
            if type(self.ip).__name__ == 'ImmutableInteractiveParser':
                r = r.result
            return ('tree', r)
        except UnexpectedToken:
            return ('error', len(self.seq))


def _forks_body(rec, p, kind, c1, c2, order, acc_at):
    kind = hs.pick(kind, 0, NFK - 1)
    order = hs.pick(order, 0, 2)
    ip = LARK.parse_interactive()
    seq0 = []
    k = 0
    while k < len(p):
        name = NAMES[hs.sel(p[k], K)]
        try:
            ip.feed_token(_tok(name))
        except UnexpectedToken:
            rec['key'] = ['prefix rejected', list(seq0), name]
            rec['nontrivial'] = False
            return True
        seq0.append(name)
        k += 1
    if kind == 0:
        f = ip.copy()
    elif kind == 1:
        f = copy(ip)
    elif kind == 2:
        f = ip.as_immutable()
    else:
        f = ip.as_immutable().as_mutable()
    snap = ip.as_immutable()            # never fed: must stay at seq0
    snap2 = f.copy() if kind != 2 else f  # a fork of the fork (immutable parsers are their own snapshot)
    ra = _Runner(ip, seq0)
    rb = _Runner(f, seq0)
    n1 = hs.pick(len(c1), 0, LC)
    n2 = hs.pick(len(c2), 0, LC)
    acc_at = hs.pick(acc_at, 0, 1) * (2 * LC)
    i1 = i2 = 0
    step = 0
    acc_seen = None
    while i1 < n1 or i2 < n2:
        if step == acc_at:
            acc_seen = (set(rb.ip.accepts()) if rb.err is None else None, list(rb.seq))
        if order == 0:
            take_a = i1 < n1
        elif order == 1:
            take_a = not (i2 < n2)
        else:
            take_a = (step % 2 == 0 and i1 < n1) or not (i2 < n2)
        if take_a:
            ra.feed(NAMES[hs.sel(c1[i1], K)])
            i1 += 1
        else:
            rb.feed(NAMES[hs.sel(c2[i2], K)])
            i2 += 1
        step += 1
    if acc_seen is None:
        acc_seen = (set(rb.ip.accepts()) if rb.err is None else None, list(rb.seq))
    res_a = ra.finish()
    res_b = rb.finish()
    res_snap = _Runner(snap, seq0).finish()
    res_snap2 = _Runner(snap2, seq0).finish()
    with hs.untraced():
        rec['key'] = [seq0, kind, ra.seq[len(seq0):], rb.seq[len(seq0):], order]
        rec['nontrivial'] = len(ra.seq) > len(seq0) and len(rb.seq) > len(seq0)
        rec['count'] = {'forks': 1, 'trees': int(res_a[0] == 'tree') + int(res_b[0] == 'tree')}
        for label, got, seq in (('original', res_a, ra.seq), ('fork', res_b, rb.seq), ('snapshot of the original', res_snap, seq0),
                                ('snapshot of the fork', res_snap2, seq0)):
            want = _reference(seq)
            if got != want:
                return hs.fail(rec, '%s does not end with the result of its own token sequence' % label, seq=seq, fork_kind=kind,
                               got=[got[0], hs.plain(got[1])], want=[want[0], hs.plain(want[1])])
        if acc_seen[0] is not None:
            want_acc = _fresh_accepts(acc_seen[1])
            if acc_seen[0] != want_acc:
                return hs.fail(rec, 'accepts() differs from the set of tokens whose feeding succeeds', seq=acc_seen[1], got=sorted(acc_seen[0]), want=sorted(want_acc))
    return True


def _acc_body(rec, ix):
    ip = LARK.parse_interactive()
    seq = []
    seen = [(set(ip.accepts()), [])]
    k = 0
    try:
        while k < len(ix):
            name = NAMES[hs.sel(ix[k], K)]
            seq.append(name)
            ip.feed_token(_tok(name))
            seen.append((set(ip.accepts()), list(seq)))
            k += 1
    except UnexpectedToken:
        pass
    with hs.untraced():
        rec['key'] = list(seq)
        rec['nontrivial'] = len(seen) > 1
        rec['count'] = {'states_checked': len(seen)}
        for got, prefix in seen:
            want = _fresh_accepts(prefix)
            if got != want:
                return hs.fail(rec, 'accepts() differs from the set of tokens whose feeding succeeds', prefix=prefix, got=sorted(got), want=sorted(want))
    return True


def acc(ix: List[int]) -> bool:
    """
    pre: len(ix) <= LA
    post: _
    """
    return hs.run_path(_acc_body, (ix,), corner=lambda ix: len(ix) == LA and hs.sel(ix[LA - 1], K) == K - 1)


def forks(p: List[int], kind: int, c1: List[int], c2: List[int], order: int, acc_at: int) -> bool:
    """
    pre: len(p) <= LP and len(c1) <= LC and len(c2) <= LC and 0 <= kind < NFK and 0 <= order <= 2 and 0 <= acc_at <= 1 and (FK is None or kind == FK) and (ORD is None or order == ORD)
    post: _
    """
    return hs.run_path(_forks_body, (p, kind, c1, c2, order, acc_at),
                       corner=lambda p, kind, c1, c2, order, acc_at: len(c1) == LC and len(c2) == LC and acc_at == 1)


# ---------------------------------------------------------------------------------------------------------------------

def _text_of(ix):
    return ' '.join(TEXT_TOKENS[hs.sel(i, KT)] for i in ix)


def _parse_ref(text):
    try:
        return ('tree', LARK.parse(text))
    except UnexpectedInput as e:
        return ('error', type(e).__name__, e.pos_in_stream)


def _resume_body(rec, ix, j, mode, first):
    n = hs.pick(len(ix), 0, NT)
    text = _text_of(ix)
    mode = hs.pick(mode, 0, 2)
    j = hs.pick(j, 0, NT)
    first = bool(first)
    ip = LARK.parse_interactive(text)
    # step j tokens by hand (what iter_parse does per iteration: pull a token from the lexer thread, feed it)
    stream = ip.lexer_thread.lex(ip.parser_state)
    stepped = 0
    try:
        while stepped < j:
            ip.feed_token(next(stream))
            stepped += 1
    except StopIteration:
        pass
    except UnexpectedInput:
        rec['key'] = [text, 'error while stepping']
        rec['nontrivial'] = False
        return True
    # after `stepped` tokens, fork
    f = ip.copy() if mode != 2 else ip.as_immutable().as_mutable()

    def run(x):
        try:
            if mode == 1:
                toks = x.exhaust_lexer()
                return ('tree', x.feed_eof(toks[-1] if toks else None))
            return ('tree', x.resume_parse())
        except UnexpectedInput as e:
            return ('error', type(e).__name__, e.pos_in_stream)
    if first:
        r1 = run(f)
        r2 = run(ip)
    else:
        r2 = run(ip)
        r1 = run(f)
    with hs.untraced():
        rec['key'] = [text, stepped, mode, first]
        rec['nontrivial'] = stepped > 0 and n > stepped
        want = _parse_ref(text)
        rec['count'] = {'texts': 1, 'accepted': int(want[0] == 'tree')}
        # compare trees and error classes with a plain parse() of the same text
        for label, got in (('fork', r1), ('original', r2)):
            if got[0] != want[0] or (got[0] == 'tree' and got[1] != want[1]) or (got[0] == 'error' and got[1:] != want[1:]):
                if want[0] == 'error' and got[0] == 'error':
                    continue        # error reporting after a manual step may borrow coordinates from another token: class/pos not compared here
                return hs.fail(rec, '%s: %s after stepping %d tokens differs from parse(text)' % (label, ['resume_parse', 'exhaust_lexer+feed_eof', 'resume_parse'][mode], stepped),
                               text=text, fork_first=first, got=[got[0], hs.plain(got[1])], want=[want[0], hs.plain(want[1])])
    return True


def resume(ix: List[int], j: int, mode: int, first: bool) -> bool:
    """
    pre: len(ix) <= NT and 0 <= j <= NT and 0 <= mode <= 2 and (RMODE is None or (mode == RMODE and first == RFIRST))
    post: _
    """
    return hs.run_path(_resume_body, (ix, j, mode, first), corner=lambda ix, j, mode, first: len(ix) == NT and j == 1)


def _errstate_body(rec, ix, bad_at):
    # a text with one offending token: on the error, drop that token and resume; result must equal parse(text without it)
    n = hs.pick(len(ix), 1, NT)
    bad_at = hs.pick(bad_at, 0, n)
    words = [TEXT_TOKENS[hs.sel(i, KT)] for i in ix]
    good = ' '.join(words)
    with_bad = ' '.join(words[:bad_at] + ['!'] + words[bad_at:])
    res = None
    try:
        res = ('tree', LARK.parse(with_bad))
    except UnexpectedToken as e:
        try:
            res = ('tree', e.interactive_parser.resume_parse())
        except UnexpectedInput as e2:
            res = ('error', type(e2).__name__)
    except UnexpectedInput as e:
        res = ('error', type(e).__name__)
    with hs.untraced():
        rec['key'] = [with_bad]
        want_bad = _parse_ref(with_bad)
        want_good = _parse_ref(good)
        rec['nontrivial'] = want_bad[0] == 'error' and want_good[0] == 'tree'
        rec['count'] = {'texts': 1, 'resumed': int(rec['nontrivial'])}
        if want_bad[0] == 'tree':
            return True     # '!' happened to be legal there ("7 !" is not: NUM "!" needs both; "7!" + "!" is)
        if want_bad[1] != 'UnexpectedToken':
            return True
        # the first error is at the inserted token only if everything before it is viable; compare only then
        if want_bad[2] != len(' '.join(words[:bad_at])) + (1 if bad_at else 0):
            return True
        if want_good[0] == 'tree':
            if res[0] != 'tree' or res[1] != want_good[1]:
                return hs.fail(rec, 'resume_parse() from the error state differs from a parse of the input without the offending token',
                               text=with_bad, got=[res[0], hs.plain(res[1])], want=hs.plain(want_good[1]))
        elif res[0] == 'tree':
            return hs.fail(rec, 'resume_parse() accepted although the remaining input is not acceptable', text=with_bad)
    return True


def errstate(ix: List[int], bad_at: int) -> bool:
    """
    pre: 1 <= len(ix) <= NT and 0 <= bad_at <= len(ix)
    post: _
    """
    return hs.run_path(_errstate_body, (ix, bad_at), corner=lambda ix, bad_at: len(ix) == NT and bad_at == NT)


def plan(tier, seed):
    quick = tier == 'quick'
    LP, LC = (2, 2) if quick else (3, 2)
    slices = []
    for g in (['inl_lrec2', 'chain2'] if quick else ['inl_lrec', 'mid', 'chain', 'inl_lrec2', 'chain2']):
        for fk in range(4):
            for od in range(3):
                slices.append({'id': 'forks:%s:kind%d:order%d:p%d:c%d' % (g, fk, od, LP, LC), 'func': 'forks',
                               'params': {'kind': 'forks', 'g': g, 'LP': LP, 'LC': LC, 'fork_kind': fk, 'order': od}, 'timeout': 300 if quick else 3000,
                               'twin': fk == 0 and od == 2, 'bound': {'prefix': LP, 'continuations': LC}})
    for g, mut in (('inl_lrec_empty2', False), ('inl_lrec2', True), ('inl_lrec_empty2', True), ('inl_lrec_maybe2', False)):
        for fk in range(4):
            for od in range(3):
                if quick and not (fk in (0, 2) and od == 2):
                    continue
                slices.append({'id': 'forks:%s%s:kind%d:order%d:p%d:c%d' % (g, ':mut' if mut else '', fk, od, LP, LC), 'func': 'forks',
                               'params': {'kind': 'forks', 'g': g, 'LP': LP, 'LC': LC, 'fork_kind': fk, 'order': od, 'mut': mut}, 'timeout': 300 if quick else 3000,
                               'twin': False, 'bound': {'prefix': LP, 'continuations': LC, 'embedded_callback_edits_tokens': mut}})
    for g in ACC_GRAMMARS:
        # the order in which accepts() tries the terminals follows the parse table's dict order, which depends on the string hash
        # seed: the slice is repeated under different PYTHONHASHSEED values (sampled, declared)
        for rep in range(4 if g == 'merged' else 1):
            slices.append({'id': 'acc:%s:L%d:hashseed%d' % (g, 4 if quick else 6, rep), 'func': 'acc', 'params': {'kind': 'acc', 'g': g, 'L': 4 if quick else 6},
                           'hashseed': 1000 * rep + seed, 'timeout': 300 if quick else 1500, 'twin': rep == 0, 'bound': {'tokens': 4 if quick else 6}})
    NT = 3 if quick else 4
    for lexer in ('contextual', 'basic'):
        for rm in range(3):
            for rf in (False, True):
                slices.append({'id': 'resume:%s:NT%d:mode%d:%s' % (lexer, NT, rm, 'fork-first' if rf else 'original-first'), 'func': 'resume',
                               'params': {'kind': 'resume', 'lexer': lexer, 'NT': NT, 'rmode': rm, 'rfirst': rf},
                               'timeout': 300 if quick else 3000, 'bound': {'text_tokens': NT}, 'twin': rm == 0 and rf})
        slices.append({'id': 'errstate:%s:NT%d' % (lexer, NT), 'func': 'errstate', 'params': {'kind': 'resume', 'lexer': lexer, 'NT': NT},
                       'timeout': 400 if quick else 3000, 'bound': {'text_tokens': NT}})
    meta = {
        'rule': 'forks: one path per (prefix, fork kind, continuations, interleaving, accepts step) with lazily realised kinds and pruning on rejection; '
                'resume/errstate: one path per (token-composed text, step count, mode, order)',
        'technique': 'CrossHair symbolic execution of the real InteractiveParser/ImmutableInteractiveParser/ParserState/LexerThread code over symbolic fork histories',
        'functions_encoded': ['InteractiveParser.feed_token/copy/__copy__/as_immutable/accepts/resume_parse/exhaust_lexer/iter_parse/feed_eof',
                              'ImmutableInteractiveParser.feed_token/as_mutable', 'ParserState.copy/feed_token', 'LexerThread.__copy__', 'LexerState.__copy__',
                              'ChildFilterLALR (in-place list reuse)', 'Tree.__deepcopy__', '_Parser.parse_from_state'],
        'bounds': {'prefix': LP, 'continuations': LC, 'fork_levels': 2, 'text_tokens': NT},
        'outside_bounds': ['copy(deepcopy_values=False) as a user-visible fork (explicit opt-out of independence; exercised through accepts())', 'deeper fork trees'],
        'stubs_and_assumes': ['resume texts are token-composed (well-tokenised), not arbitrary strings'],
    }
    return {'slices': slices, 'meta': meta}
