"""C01 - Earley accepts exactly the language of the grammar."""
from vfw import corpus

PROPERTY = 'C01'


def plan(tier, seed):
    L = 4 if tier == 'quick' else 6
    slices = []
    for name in corpus.tok_names():
        slices.append({'id': 'tok:%s:L%d' % (name, L), 'module': 'vfw.harness.tok',
                       'params': {'g': name, 'parser': 'earley', 'L': L, 'asserts': ['member']},
                       'timeout': 100 if tier == 'quick' else 900, 'bound': {'tokens': L}})
    return {'slices': slices, 'meta': {'rule': 'x'}}
