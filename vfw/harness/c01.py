"""C01 - Earley accepts exactly the language of the grammar.

 tok (CrossHair): symbolic token-kind sequences (lazily realised) through earley.Parser via the custom-lexer interface; accept <=> member.
 txt (CrossHair): class-strings through xearley (dynamic, dynamic_complete); accept <=> member of the scannerless reference language
     (regular languages for dynamic_complete, longest match per occurrence for dynamic, greedy ignores between tokens).
 con (CrossHair): construction of a symbolic two-item rule template never hangs and raises GrammarError exactly for colliding
     [..] expansions.
"""
from typing import List

from vfw import hs, corpus
from vfw.harness.planutil import tok_slices

PROPERTY = 'C01'
P = hs.params()

ITEMS = ['A', 'B', '[A]', '[B]', 'A?', 'B?', '(A B)?', '[A B]']

if P and P.get('kind') == 'con':
    from lark import Lark
    from lark.exceptions import GrammarError, UnexpectedInput
    NI = len(ITEMS)


def _alts_of(item):
    """Alternatives of one item as sequences over symbols and the placeholder marker 'E' (maybe_placeholders on)."""
    if item in ('A', 'B'):
        return [(item,)]
    if item.endswith('?'):
        inner = tuple(item[:-1].strip('()').split())
        return [inner, ()]
    inner = tuple(item.strip('[]').split())
    return [inner, ('E',) * len(inner)]


def _con_oracle(i, j, k, mp):
    """Can two different choices of the optional items yield the same non-empty symbol sequence? (the class of grammars for which
    the property allows the documented GrammarError; it does not demand it - `A? A?` is accepted, `[A] [A]` is refused)"""
    items = [ITEMS[i], ITEMS[j], ITEMS[k]]
    seqs = []
    for a in _alts_of(items[0]):
        for b in _alts_of(items[1]):
            for c in _alts_of(items[2]):
                seqs.append(tuple(x for x in a + b + c if x != 'E'))
    return any(s and seqs.count(s) > 1 for s in seqs)


def _con_body(rec, i, j, k, mp):
    i = hs.pick(i, 0, NI - 1)
    j = hs.pick(j, 0, NI - 1)
    k = hs.pick(k, 0, NI - 1)
    mp = bool(mp)
    g = 'start: %s %s %s\n%%declare A B\n' % (ITEMS[i], ITEMS[j], ITEMS[k])
    err = None
    # realised mode: the template indices are concrete here and grammar text cannot be symbolic through lark's own grammar lexer;
    # construction under the tracer costs 8 s per grammar (measured), so it runs untraced; the solver owns the template enumeration
    with hs.untraced():
        with hs.watchdog(20):
            try:
                lk = Lark(g, parser='earley', lexer=hs.make_list_lexer(['A', 'B']), maybe_placeholders=mp)
                lk.parse([])
            except GrammarError as e:
                err = e
            except UnexpectedInput:
                pass
        rec['key'] = [g, mp]
        rec['nontrivial'] = True
        may = _con_oracle(i, j, k, mp)
        rec['count'] = {'grammars': 1, 'grammar_errors': int(err is not None), 'collision_class': int(may)}
        if err is not None and not (may and 'Rules defined twice' in str(err)):
            return hs.fail(rec, 'construction failed outside the documented class (colliding expansions of optional items)',
                           grammar=g, maybe_placeholders=mp, err=str(err)[:200])
    return True


def con(i: int, j: int, k: int, mp: bool) -> bool:
    """
    pre: 0 <= i < NI and 0 <= j < NI and 0 <= k < NI
    post: _
    """
    return hs.run_path(_con_body, (i, j, k, mp), corner=lambda i, j, k, mp: j == NI - 1 and k == NI - 1 and mp)


# grammar templates shared with C02 (all of which Earley must handle): symbolic template indices, realised construction
if P and P.get('kind') == 'gtpl':
    import itertools
    from lark import Lark
    from lark.exceptions import GrammarError, UnexpectedInput
    from vfw.harness import c02
    from vfw.refsem import cfg as _cfg
    TPL = P['tpl']
    LG = P['L']
    LEXG = hs.make_list_lexer(['T1', 'T2'])
    INPUTS_G = [list(w) for n in range(LG + 1) for w in itertools.product(range(2), repeat=n)]
    PIN_G = P.get('pin')


def _gtpl_body(rec, a, b, c, d, order):
    if TPL == 'tab':
        pool = P['pool']
        a = hs.sel(a, pool - 1)
        b = a + 1 + hs.sel(b, pool - 1 - a)
        c = hs.sel(c, pool - 1)
        d = c + 1 + hs.sel(d, pool - 1 - c)
        g = c02._template_grammar(a, b, c, d)
        key = [a, b, c, d]
    else:
        a = hs.sel(a, len(c02.S_POOL))
        b = hs.sel(b, len(c02.A_POOL))
        c = hs.sel(c, len(c02.B_POOL))
        d = hs.sel(d, len(c02.C_POOL))
        order = hs.sel(order, 2)
        g = c02._chain_grammar(a, b, c, d, order)
        key = [a, b, c, d, order]
    with hs.untraced():
        rec['key'] = key
        rec['nontrivial'] = True
        bnf = _cfg.BNF(g)
        with hs.watchdog(20):
            try:
                lk = Lark(g.render(), parser='earley', lexer=LEXG)
            except GrammarError as e:
                if 'used but not defined' in str(e) or 'Rules defined twice' in str(e):
                    rec['count'] = {'grammars_not_constructible': 1}
                    return True
                raise
        n_acc = 0
        for w in INPUTS_G:
            kinds = ['T1' if i == 0 else 'T2' for i in w]
            want = _cfg.member(bnf, _cfg.TokenInput(kinds))
            with hs.watchdog(10):
                try:
                    lk.parse(w)
                    got = True
                except UnexpectedInput:
                    got = False
            n_acc += int(got)
            if got != want:
                return hs.fail(rec, 'Earley %s a %s' % ('accepts' if got else 'rejects', 'non-sentence' if got else 'sentence'), grammar=g.render(), kinds=kinds)
        rec['count'] = {'grammars': 1, 'inputs': len(INPUTS_G), 'accepted': n_acc}
    return True


def gtpl(a: int, b: int, c: int, d: int, order: int) -> bool:
    """
    pre: PIN_G is None or a == PIN_G
    post: _
    """
    return hs.run_path(_gtpl_body, (a, b, c, d, order))


TXT_GRAMMARS = ['lines', 'nlvia', 'dotall', 'collide', 'letx', 'nulltxt', 'prefalt', 'kw', 'ign2', 'anoncollide', 'ignstart', 'reptok', 'opttail']
TXT_K = {'ign2': 5, 'lines': 8, 'nlvia': 8, 'dotall': 7, 'collide': 5, 'letx': 9, 'nulltxt': 6, 'prefalt': 4, 'kw': 14, 'anoncollide': 5, 'ignstart': 4, 'reptok': 3, 'opttail': 6}


def plan(tier, seed):
    quick = tier == 'quick'
    L = 4 if quick else 6
    budget = 60 if quick else 900
    slices = []
    for name in corpus.TOK:
        slices += tok_slices('tok', name, 'earley', L, ['member'], 0.35, budget)
    Lt = 3 if quick else 4
    for g in TXT_GRAMMARS:
        k = TXT_K[g]
        if k > 9 and quick:
            continue
        for lexer in ('dynamic', 'dynamic_complete'):
            npaths = sum(k ** n for n in range(Lt + 1))
            cost = 0.3
            pins = [None] if npaths * cost <= budget else list(range(k))
            for pin in pins:
                est = (npaths if pin is None else npaths / k) * cost
                slices.append({'id': 'txt:%s:%s:L%d%s' % (g, lexer, Lt, '' if pin is None else ':pin%d' % pin), 'module': 'vfw.harness.txt',
                               'params': {'g': g, 'parser': 'earley', 'lexer': lexer, 'L': Lt, 'asserts': ['member'], 'pin': pin},
                               'timeout': int(est * 2.5 + 40), 'twin': pin in (None, k - 1), 'bound': {'chars': Lt, 'classes': k}})
    pool = 7 if quick else 13
    for pa in range(pool - 1):
        slices.append({'id': 'gtpl:tab:pool%d:a%d' % (pool, pa), 'func': 'gtpl', 'mode': 'realised', 'twin': False,
                       'params': {'kind': 'gtpl', 'tpl': 'tab', 'pool': pool, 'pin': pa, 'L': 4 if quick else 5}, 'timeout': 300 if quick else 2000,
                       'bound': {'grammars': (pool - 1 - pa) * (pool * (pool - 1) // 2), 'input_tokens': 4 if quick else 5}})
    for sa in range(4):
        slices.append({'id': 'gtpl:chain:s%d' % sa, 'func': 'gtpl', 'mode': 'realised', 'twin': False,
                       'params': {'kind': 'gtpl', 'tpl': 'chain', 'pin': sa, 'L': 4 if quick else 6}, 'timeout': 300 if quick else 2000,
                       'bound': {'grammars': 96, 'input_tokens': 4 if quick else 6}})
    slices.append({'id': 'con:template', 'func': 'con', 'params': {'kind': 'con'}, 'timeout': 300, 'mode': 'realised',
                   'bound': {'grammars': 2 * len(ITEMS) ** 3}})
    meta = {
        'rule': 'tok: one path per viable token prefix + one rejecting extension; txt: one path per class-string; con: one path per template grammar; '
                'non-trivial = non-empty input / every template grammar',
        'technique': 'CrossHair symbolic execution of the real Earley parsers vs. a least-fixpoint reference recogniser',
        'functions_encoded': ['lark.parsers.earley.Parser.parse/_parse/predict_and_complete/scan', 'lark.parsers.xearley.Parser._parse/scan',
                              'lark.parsers.earley_common.Item', 'lark.parsers.grammar_analysis.GrammarAnalyzer', 'lark.parser_frontends.EarleyRegexpMatcher',
                              'lark.load_grammar (construction, EBNF_to_BNF, duplicate-rule detection)'],
        'bounds': {'tokens': L, 'chars': Lt, 'token_grammars': len(corpus.TOK), 'text_grammars': len(TXT_GRAMMARS), 'construction_template': 2 * len(ITEMS) ** 3},
        'outside_bounds': ['longer inputs', 'grammars outside the corpus', 'regexps with look-around/back-references', 'regex module',
                           'lexer=basic at text level is decided at token level here and at text level in C07'],
        'stubs_and_assumes': ['ignored terminals are lexed greedily (re.match) between tokens', 'alphabet partition argument (DESIGN 2.3)'],
    }
    return {'slices': slices, 'meta': meta}
