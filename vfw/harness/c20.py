"""C20 - the parse forest (ambiguity='forest') encodes exactly the derivations; forest walks terminate and report cycles."""
from vfw.harness import c04

PROPERTY = 'C20'


def plan(tier, seed):
    slices, L, Lt = c04.make_plan('forest', tier, seed)
    meta = {
        'rule': 'one path per viable token prefix (+ one rejecting extension) / per class-string; non-trivial = inputs with >= 2 derivations (or any accepted input of a cyclic grammar)',
        'technique': 'CrossHair symbolic execution of the real SPPF construction and of every forest visitor/transformer class vs. the set of unshaped derivation trees',
        'functions_encoded': ['lark.parsers.earley_forest.ForestVisitor.visit', 'ForestTransformer.transform', 'TreeForestTransformer', 'ForestSumVisitor', 'SymbolNode.is_ambiguous/children/load_paths',
                              'lark.parsers.earley.Parser.parse (forest root)', 'lark.parsers.xearley'],
        'bounds': {'tokens': L, 'chars': Lt},
        'outside_bounds': ['grammars with EBNF operators for the completeness clause (helper-rule names are an implementation detail of the unshaped trees)', 'ForestToPyDotVisitor (needs pydot)'],
        'stubs_and_assumes': ['watchdog = termination of the walks; on cyclic grammars the walks must finish and on_cycle must not fire for acyclic ones'],
    }
    return {'slices': slices, 'meta': meta}
