"""C17 - imports, overrides, extensions and templates mean what textual inlining means.

A small module set (main grammar + lib.lark + lib2.lark, written to a scratch directory) is assembled from symbolic choices: which
names main imports from lib (args / expr / NAME,NUM; lib itself imports NUM from lib2), with or without renaming, an optional %override,
an optional %extend, an optional same-named local definition that an imported rule's private helper must not capture, and template
use with terminal / rule / literal arguments (nested). The reference grammar is produced by a ~40 line *textual inliner* that applies
the documented rule: explicitly imported names keep their (aliased) name, every other definition of the module becomes module__name
(_module__name for underscore names), %override replaces the body, %extend appends alternatives, templates are expanded by
substitution. Both grammars are built by the real front end; CrossHair explores the choices and a lexeme-composed input; acceptance
and trees must be equal up to the documented module__ prefix.
"""
import os
import re
import shutil
import tempfile
from typing import List

from vfw import hs

PROPERTY = 'C17'
P = hs.params()

LIB2 = '''
NUM: /[0-9]+/
DIGITS: /[0-9]/
'''
LIB = '''
%import .lib2 (NUM)
args: _seq{expr}
_seq{x}: x (_comma x)*
expr: NAME | NUM | "(" expr ")" | _neg
_neg: "-" helper
helper: NUM
_comma: ","
NAME: /[a-z]+/
PAIR: LETTER "x"
LETTER: "q"
'''
# statement-level building blocks (valid and invalid ones): sequences of these exercise every imported / overridden / extended /
# template-instantiated definition
LEXEMES = ['f ( ) ;', 'f ( 7 ) ;', 'f ( g , 7 ) ;', 'pass ;', '[ f ] ;', '[ f , xy ] ;', 'f ( - 7 ) ;', 'f ( ( g ) ) ;', 'f ( = ) ;', 'f ( ) xy ;',
           'f ( g ; 7 ) ;', '7 ( ) ;', 'f ( 7 7 ) ;', 'f ( - xy ) ;', '[ 7 ] ;', 'f ( 7 , ) ;', '! qx ;', '! wx ;', '! qx wx ;']


def _defs(text):
    """{name: body} of a simple grammar text (one definition per line or continued with leading '|')."""
    out = {}
    cur = None
    for line in text.strip().splitlines():
        m = re.match(r'^([?!]*)([_A-Za-z][_A-Za-z0-9]*)(\{[^}]*\})?\s*(\.-?\d+)?\s*:(.*)$', line)
        if line.startswith('%'):
            continue
        if m:
            cur = m.group(2)
            out[cur] = [m.group(1), m.group(3) or '', m.group(4) or '', m.group(5)]
        elif cur and line.strip().startswith('|'):
            out[cur][3] += ' ' + line.strip()
    return out


def _mangler(prefix, aliases, base=None):
    def mangle(s):
        if s in aliases:
            s = aliases[s]
        else:
            # lark's internal name is prefix__NAME; a mangled *terminal* cannot be written in grammar text with a lower-case prefix,
            # so the reference text spells it PREFIX__NAME (labels are compared after stripping the prefix either way)
            pre = prefix.upper() if s.lstrip('_')[:1].isupper() else prefix
            s = '_%s__%s' % (pre, s[1:]) if s[0] == '_' else '%s__%s' % (pre, s)
        return base(s) if base else s
    return mangle


def _rename(body, names, mangle):
    return re.sub(r'(?<![A-Za-z0-9_"/])([_A-Za-z][_A-Za-z0-9]*)(?![A-Za-z0-9_"])', lambda m: mangle(m.group(1)) if m.group(1) in names else m.group(1), body)


def _inline_module(text, modules, mangle):
    """Definitions of a module, renamed by `mangle`, with its own %imports inlined first (composed mangling)."""
    defs = _defs(text)
    out = {}
    local_names = set(defs)
    imported = {}
    for m in re.finditer(r'^%import \.([a-z0-9]+) \(([^)]*)\)', text, re.M):
        mod, names = m.group(1), [x.strip() for x in m.group(2).split(',')]
        sub_aliases = {n: n for n in names}
        sub = _inline_module(modules[mod], modules, _mangler(mod, sub_aliases, mangle))
        out.update(sub)
        for n in names:
            imported[n] = n
    names = local_names | set(imported)
    for name, (mods, params, prio, body) in defs.items():
        out[mangle(name)] = (mods, params, prio, _rename(body, names, mangle))
    return out


def _reachable(defs, roots):
    seen, todo = set(), list(roots)
    while todo:
        n = todo.pop()
        if n in seen or n not in defs:
            continue
        seen.add(n)
        for m in re.finditer(r'(?<![A-Za-z0-9_"/])([_A-Za-z][_A-Za-z0-9]*)(?![A-Za-z0-9_"])', defs[n][3]):
            todo.append(m.group(1))
    return seen


def assemble(c):
    """c: dict of choice bits -> (main grammar text using %import/%override/%extend/templates, flat reference text)."""
    imports = {}
    if c['imp_args']:
        imports['args'] = 'arglist' if c['alias'] else 'args'
    if c['imp_expr']:
        imports['expr'] = 'e' if c['alias'] else 'expr'
    if c['imp_terms']:
        imports['NAME'] = 'IDENT' if c['alias'] else 'NAME'
    A = imports.get('args')
    E = imports.get('expr')
    N = imports.get('NAME')
    main_rules = []
    main_rules.append('start: stmt+')
    call_args = A if A else ('_sep{%s, ","}' % (E or 'lexpr'))
    main_rules.append('stmt: %s "(" [%s] ")" ";" -> call' % (N or 'LNAME', call_args))
    main_rules.append('    | "pass" ";" -> nop')
    main_rules.append('    | lst{%s} ";"' % (N or 'LNAME'))
    if not E:
        main_rules.append('lexpr: %s | "7"' % (N or 'LNAME'))
    if not N:
        main_rules.append('LNAME: /[a-z]+/')
    if c.get('imp_pair'):
        # a terminal built from another terminal of the module; the inner one may be extended / overridden by the importer
        main_rules.insert(4, '    | "!" PAIR+ ";" -> pairs')
    main_rules.append('_sep{x, s}: x (s x)*')
    main_rules.append('lst{t}: "[" _sep{t, ","} "]"')
    if c['local_helper']:
        # same-named local definitions: the imported _neg must keep using lib's helper / _comma, not these
        main_rules.append('helper: "xy"')
        main_rules.append('_comma: ";"')
        main_rules[1] = main_rules[1].replace('-> call', 'helper? -> call')
    directives = []
    if imports:
        directives.append('%%import .lib (%s)' % ', '.join(k if k == v else '%s -> %s' % (k, v) if False else k for k, v in imports.items()) if not c['alias'] else
                          '\n'.join('%%import .lib.%s -> %s' % (k, v) for k, v in imports.items()))
    if c['override'] and E:
        directives.append('%%override %s: %s | "7" | "(" %s ")"' % (E, N or 'LNAME', E))
    if c['extend'] and A:
        directives.append('%%extend %s: "=" ' % A)
    if c.get('imp_pair'):
        directives.append('%import .lib (PAIR, LETTER)')
        if c.get('pair_mod') == 1:
            directives.append('%extend LETTER: "w"')
        elif c.get('pair_mod') == 2:
            directives.append('%override LETTER: "w"')
    main = '\n'.join(main_rules + directives + ['%ignore " "']) + '\n'

    # reference: textual inlining
    flat_defs = {}
    if imports:
        modules = {'lib': LIB, 'lib2': LIB2}
        mangle = _mangler('lib', imports)
        all_defs = _inline_module(LIB, modules, mangle)
        keep = _reachable(all_defs, imports.values())
        flat_defs = {n: d for n, d in all_defs.items() if n in keep}
    if c.get('imp_pair'):
        modules = {'lib': LIB, 'lib2': LIB2}
        imports2 = dict(imports, PAIR='PAIR', LETTER='LETTER')
        all_defs = _inline_module(LIB, modules, _mangler('lib', imports2))
        keep = _reachable(all_defs, imports2.values())
        flat_defs = {n: d for n, d in all_defs.items() if n in keep}
        if c.get('pair_mod') == 1:
            m_, p_, pr_, body_ = flat_defs['LETTER']
            flat_defs['LETTER'] = (m_, p_, pr_, body_ + ' | "w"')
        elif c.get('pair_mod') == 2:
            flat_defs['LETTER'] = ('', '', '', ' "w"')
    if c['override'] and E:
        flat_defs[E] = ('', '', '', ' %s | "7" | "(" %s ")"' % (N or 'LNAME', E))
        keep = _reachable(flat_defs, list(imports.values()) + (['PAIR', 'LETTER'] if c.get('imp_pair') else []))
        flat_defs = {n: d for n, d in flat_defs.items() if n in keep}
    if c['extend'] and A:
        m, p, pr, body = flat_defs[A]
        flat_defs[A] = (m, p, pr, body + ' | "="')
    flat_rules = []
    for line in main_rules:
        flat_rules.append(line)
    # expand templates by substitution
    flat_text = '\n'.join(flat_rules) + '\n'
    flat_text = flat_text.replace('_sep{x, s}: x (s x)*\n', '').replace('lst{t}: "[" _sep{t, ","} "]"\n', '')
    t_arg = N or 'LNAME'
    # a template instance's tree node carries the template's name
    flat_text = flat_text.replace('lst{%s}' % t_arg, 'lst')
    extra = ['lst: "[" _sep_lst "]"', '_sep_lst: %s ("," %s)*' % (t_arg, t_arg)]
    if not A:
        x = E or 'lexpr'
        flat_text = flat_text.replace('_sep{%s, ","}' % x, '_sep_call')
        extra.append('_sep_call: %s ("," %s)*' % (x, x))
    flat = flat_text + '\n'.join(extra) + '\n' + ''.join('%s%s%s%s:%s\n' % (d[0], n, d[1], d[2], d[3]) for n, d in flat_defs.items()) + '%ignore " "\n'
    return main, flat


if P:
    from lark import Lark, Tree, Token
    from lark.exceptions import UnexpectedInput, GrammarError
    SCRATCH = tempfile.mkdtemp(prefix='vf_c17_')
    import atexit
    atexit.register(shutil.rmtree, SCRATCH, True)
    with open(os.path.join(SCRATCH, 'lib.lark'), 'w') as f:
        f.write(LIB)
    with open(os.path.join(SCRATCH, 'lib2.lark'), 'w') as f:
        f.write(LIB2)
    L = P['L']
    K = len(LEXEMES)
    KSEQ = P.get('kseq', K)     # statement kinds used in sequences of two or more
    BITS = ['imp_args', 'imp_expr', 'imp_terms', 'alias', 'override', 'extend', 'local_helper']
    KAT = P.get('kat', False)
    PAIRMODE = P.get('pairmode')       # None: PAIR not imported; 0: imported; 1: + %extend LETTER; 2: + %override LETTER
    CACHE = {}
    PARSER = P.get('parser', 'lalr')
    PINC = P.get('cfg')

    def built(ci):
        if ci not in CACHE:
            c = {b: bool((ci >> k) & 1) for k, b in enumerate(BITS)}
            if PAIRMODE is not None:
                c['imp_pair'] = True
                c['pair_mod'] = PAIRMODE
            main, flat = assemble(c)
            CACHE[ci] = (c, main, flat, Lark(main, parser=PARSER, source_path=os.path.join(SCRATCH, 'main.lark'), keep_all_tokens=KAT),
                         Lark(flat, parser=PARSER, keep_all_tokens=KAT))
        return CACHE[ci]


def _strip(name):
    return re.sub(r'((?:lib|LIB)2?__)+', '', str(name))


def _norm(t):
    if isinstance(t, Tree):
        label = _strip(t.data)
        return (label,) + tuple(_norm(c) for c in t.children)
    if isinstance(t, Token):
        return ('tok', _strip(t.type), str(t))
    return t


def _body(rec, ci, cs):
    ci = hs.sel(ci, 2 ** len(BITS))
    idx = [hs.sel(x, K if len(cs) <= 1 else KSEQ) for x in cs]
    text = ' '.join(LEXEMES[i] for i in idx)
    with hs.untraced():
        # realised: grammar text cannot be symbolic through lark's own grammar lexer; the solver owns the enumeration of programs
        rec['key'] = [ci, text]
        c, main, flat, lk_main, lk_flat = built(ci)
        a = b = None
        try:
            a = ('tree', _norm(lk_main.parse(text)))
        except UnexpectedInput as e:
            a = ('error', e.pos_in_stream)
        try:
            b = ('tree', _norm(lk_flat.parse(text)))
        except UnexpectedInput as e:
            b = ('error', e.pos_in_stream)
        rec['nontrivial'] = b[0] == 'tree'
        rec['count'] = {'cases': 1, 'accepted': int(b[0] == 'tree')}
        if a != b:
            return hs.fail(rec, 'modular grammar differs from its textual inlining', choices=c, text=text, modular=repr(a)[:300], inlined=repr(b)[:300],
                           main=main, flat=flat)
    return True


# ---------------------------------------------------------------------------------------------------------------------
# nested templates with rule modifiers: every instance must mean what the hand-written rule means, whatever the sibling instances are
TPL_MODS = ['', '!', '?']
TPL_ARGS = ['"b"', 'B', '_B', 'r']
TPL_DEFS = {'"b"': '', 'B': 'B: "b"\n', '_B': '_B: "b"\n', 'r': 'r: "b"\n'}


TPL_PRIOS = ['', '.1', '.2']


def tpl_grammars(mo, mi, arg, order, shape_):
    a = TPL_ARGS[arg]
    if shape_ == 2:
        # template definitions with priorities: two instances compete for the same text (mo, mi select the priorities)
        first, second = ('a', 'b') if order == 0 else ('b', 'a')
        templ = 'start: %s{%s} | %s{%s}\na{t}%s: t\nb{t}%s: t\n%s' % (first, a, second, a, TPL_PRIOS[mo], TPL_PRIOS[mi], TPL_DEFS[a])
        hand = 'start: %s | %s\na%s: %s\nb%s: %s\n%s' % (first, second, TPL_PRIOS[mo], a, TPL_PRIOS[mi], a, TPL_DEFS[a])
        return templ, hand
    body_t = ['inner{t} t', 't inner{t}'][order]
    body_h = ['inner %s' % a, '%s inner' % a][order]
    if shape_ == 1:
        # the argument is also handed to a second, unmodified instance
        body_t += ' plain{t}'
        body_h += ' plain'
    templ = 'start: outer{%s}+\n%souter{t}: %s\n%sinner{t}: t\nplain{t}: t "c"?\n%s' % (a, TPL_MODS[mo], body_t, TPL_MODS[mi], TPL_DEFS[a])
    hand = 'start: outer+\n%souter: %s\n%sinner: %s\nplain: %s "c"?\n%s' % (TPL_MODS[mo], body_h, TPL_MODS[mi], a, a, TPL_DEFS[a])
    return templ, hand


def _tpl_body(rec, mo, mi, arg, order, shape_, kat):
    mo = hs.sel(mo, 3)
    mi = hs.sel(mi, 3)
    arg = hs.sel(arg, len(TPL_ARGS))
    order = hs.sel(order, 2)
    shape_ = hs.sel(shape_, 3)
    kat = bool(kat)
    with hs.untraced():
        templ, hand = tpl_grammars(mo, mi, arg, order, shape_)
        rec['key'] = [mo, mi, arg, order, shape_, kat]
        rec['nontrivial'] = True
        n_in = 0
        for parser in ('lalr', 'earley'):
            built_ = []
            for src in (templ, hand):
                try:
                    built_.append(Lark(src, parser=parser, keep_all_tokens=kat))
                except GrammarError as e:
                    built_.append(('grammar-error', 'Reduce/Reduce' if 'Reduce/Reduce' in str(e) else str(e)[:80]))
            if isinstance(built_[0], tuple) or isinstance(built_[1], tuple):
                if not (isinstance(built_[0], tuple) and isinstance(built_[1], tuple) and built_[0] == built_[1]):
                    return hs.fail(rec, 'construction of the templated grammar and of the hand-written one differ', parser=parser, templated=repr(built_[0])[:200],
                                   by_hand=repr(built_[1])[:200], grammar=templ, hand=hand)
                continue
            lt, lh = built_
            for text in ('', 'b', 'bb', 'bbb', 'bbbb', 'bbc', 'bbbc', 'bbbbbb', 'bbbcbbb'):
                n_in += 1
                out = []
                for lk in (lt, lh):
                    try:
                        out.append(('tree', _norm(lk.parse(text))))
                    except UnexpectedInput as e:
                        out.append(('error', e.pos_in_stream))
                if out[0] != out[1]:
                    return hs.fail(rec, 'template instantiation differs from the hand-written rules', parser=parser, text=text, keep_all_tokens=kat,
                                   templated=repr(out[0])[:300], by_hand=repr(out[1])[:300], grammar=templ, hand=hand)
        rec['count'] = {'programs': 1, 'inputs': n_in}
    return True


PINM = P.get('mo') if P else None


def tpl(mo: int, mi: int, arg: int, order: int, shape_: int, kat: bool) -> bool:
    """
    pre: PINM is None or (mo == PINM[0] and kat == PINM[1])
    post: _
    """
    return hs.run_path(_tpl_body, (mo, mi, arg, order, shape_, kat), corner=lambda mo, mi, arg, order, shape_, kat: hs.sel(mi, 3) == 2 and hs.sel(arg, len(TPL_ARGS)) == 3)


def check(ci: int, cs: List[int]) -> bool:
    """
    pre: len(cs) <= L and (PINC is None or ci % 8 == PINC)
    post: _
    """
    return hs.run_path(_body, (ci, cs), corner=lambda ci, cs: len(cs) == L and hs.sel(cs[L - 1], K) == K - 1)


def plan(tier, seed):
    quick = tier == 'quick'
    slices = []
    L = 2 if quick else 3
    for parser in ('lalr', 'earley'):
        if parser == 'earley' and quick:
            continue
        for pc in range(8):
            slices.append({'id': '%s:imports%d:L%d' % (parser, pc, L), 'mode': 'realised', 'params': {'L': L, 'cfg': pc, 'parser': parser, 'kseq': 10 if quick else 12}, 'timeout': 600 if quick else 3000,
                           'twin': pc == 0, 'bound': {'programs': 16, 'statements': L, 'kinds': len(LEXEMES)}})
        # the same programs with keep_all_tokens on, and with a terminal-built-from-a-terminal imported / extended / overridden
        for pc in range(8):
            slices.append({'id': '%s:imports%d:kat:L1' % (parser, pc), 'mode': 'realised', 'params': {'L': 1, 'cfg': pc, 'parser': parser, 'kat': True},
                           'timeout': 600 if quick else 3000, 'twin': False, 'bound': {'programs': 16, 'statements': 1, 'keep_all_tokens': True}})
        for pm in (0, 1, 2):
            slices.append({'id': '%s:pair-mode%d:L1' % (parser, pm), 'mode': 'realised', 'params': {'L': 1, 'cfg': None, 'parser': parser, 'pairmode': pm},
                           'timeout': 600 if quick else 3000, 'twin': False,
                           'bound': {'programs': 128, 'statements': 1, 'terminal_dependency': ['imported', '%extend', '%override'][pm]}})
    for mo in range(3):
      for kat in (False, True):
        slices.append({'id': 'tpl:nested-modifiers:mo%d:kat%d' % (mo, kat), 'func': 'tpl', 'mode': 'realised', 'params': {'L': 0, 'kind': 'tpl', 'mo': [mo, kat]}, 'timeout': 600, 'twin': mo == 0 and not kat,
                   'bound': {'programs': 3 * len(TPL_ARGS) * 2 * 3, 'inputs': 9, 'parsers': 2}})
    meta = {
        'rule': 'one path per (module-set choice vector, lexeme sequence); non-trivial = accepted input',
        'technique': 'CrossHair solver-closed enumeration (realised) of module-set programs and inputs; a textual inliner implementing the documented renaming rule is the reference',
        'functions_encoded': ['lark.load_grammar.GrammarBuilder.load_grammar/do_import/_unpack_import/_define/_extend/_remove_unused', '_get_mangle', '_mangle_definition_tree',
                              'ApplyTemplates', 'lark.load_grammar.Grammar.compile (templates)'],
        'bounds': {'programs': 128, 'lexemes': L},
        'outside_bounds': ['module sets outside the template', 'import from packages / stdlib (common.lark is exercised by C11)', 'longer inputs'],
        'stubs_and_assumes': ['module files live in a scratch directory; construction is concrete per program (grammar text cannot be symbolic)'],
    }
    return {'slices': slices, 'meta': meta}
