"""C09 - repetition and optional operators match exactly the stated counts.

 sf    (CrossHair, symbolic n): utils.small_factors(n, max_factor): fold == n, a + b <= max_factor, a >= 2 past the head.
 gen   (CrossHair + z3 LIA): EBNF_to_BNF._generate_repeats(x, mn, mx) driven as a unit with symbolic (mn, mx); the generated helper
       rules form a DAG over a unary alphabet; its count language is decided compositionally: per helper rule, z3 decides
       forall k. (OR_alt lo_alt <= k <= hi_alt) <=> lo <= k <= hi (no gaps, nothing extra, unbounded in k); the root must be [mn, mx].
 L-rep (z3 regex theory): the pattern the real TerminalTreeToPattern builds for x~n..m, x?, x*, x+ is language-equivalent to
       Loop/Option/Star/Plus of L(x), for all strings.
 e2e   (CrossHair): start: x~n..m (x a terminal, rule, group, template argument) parsed with k occurrences around the bounds by LALR
       and Earley; accept <=> n <= k <= m; k consecutive children; no helper node visible.
"""
import time
from typing import List

from vfw import hs

PROPERTY = 'C09'
P = hs.params()

if P and P.get('kind') == 'sf':
    from lark.utils import small_factors
    NMAX = P['nmax']
    NMIN = P.get('nmin', 0)


def _sf_body(rec, n, mf):
    mf = hs.pick(mf, 3, 7)
    res = small_factors(n, mf)
    rec['key'] = [len(res), mf]
    rec['nontrivial'] = len(res) > 1
    acc = 1
    first = True
    for a, b in res:
        if first:
            if not (b == 0 and 0 <= a <= mf):
                return hs.fail(rec, 'head of the factor chain is not (n0, 0) with n0 <= max_factor')
            acc = a
            first = False
            continue
        if not (a >= 2 and b >= 0 and a + b <= mf):
            return hs.fail(rec, 'factor pair violates 2 <= a, 0 <= b, a + b <= max_factor')
        acc = acc * a + b
    if acc != n:
        return hs.fail(rec, 'fold of small_factors(n) is not n')
    return True


def sf(n: int, mf: int) -> bool:
    """
    pre: NMIN <= n <= NMAX and 3 <= mf <= 7
    post: _
    """
    return hs.run_path(_sf_body, (n, mf), corner=lambda n, mf: n == NMAX and mf == 7)


# ---------------------------------------------------------------------------------------------------------------------
if P and P.get('kind') == 'gen':
    import z3
    from lark.load_grammar import EBNF_to_BNF, REPEAT_BREAK_THRESHOLD
    from lark.grammar import NonTerminal, Terminal
    from lark.tree import Tree
    MXLO, MXHI = P['mxlo'], P['mxhi']
    Z3CTX = z3.Context()
    Z3STATS = {'queries': 0, 'solver_s': 0.0}


def _interval_union_is_interval(alts, lo, hi):
    """z3 (LIA): forall k. (OR lo_i <= k <= hi_i) <=> (lo <= k <= hi); returns (ok, counterexample k)."""
    k = z3.Int('k', Z3CTX)
    union = z3.Or([z3.And(k >= a, k <= b) for a, b in alts]) if alts else z3.BoolVal(False, Z3CTX)
    whole = z3.And(k >= lo, k <= hi)
    s = z3.Solver(ctx=Z3CTX)
    s.set('timeout', 10000)
    s.add(union != whole)
    t0 = time.time()
    r = s.check()
    Z3STATS['queries'] += 1
    Z3STATS['solver_s'] += time.time() - t0
    if str(r) == 'unsat':
        return True, None
    if str(r) == 'sat':
        return False, s.model()[k].as_long()
    return None, None


def _count_language(tree, new_rules, atom):
    """Compositional count-language of the generated (non-recursive) rules. Returns ((lo, hi), problem or None)."""
    rules = {name: exp for name, exp, _ in new_rules}
    memo = {}

    def sym_iv(s):
        if s == atom:
            return (1, 1), None
        if isinstance(s, Tree):
            return tree_iv(s)
        name = s.name
        if name not in memo:
            memo[name] = tree_iv(rules[name])
        return memo[name]

    def tree_iv(t):
        if t.data == 'expansion':
            lo = hi = 0
            for c in t.children:
                iv, pb = sym_iv(c)
                if pb:
                    return None, pb
                lo += iv[0]
                hi += iv[1]
            return (lo, hi), None
        assert t.data == 'expansions', t.data
        alts = []
        for c in t.children:
            iv, pb = sym_iv(c)
            if pb:
                return None, pb
            alts.append(iv)
        lo = min(a for a, _ in alts)
        hi = max(b for _, b in alts)
        ok, cex = _interval_union_is_interval(alts, lo, hi)
        if ok is None:
            return None, 'z3 inconclusive'
        if not ok:
            return None, 'count %d is %s by a helper rule whose alternatives span [%d, %d]' % (cex, 'not matched', lo, hi)
        return (lo, hi), None
    return sym_iv(tree)


def _gen_body(rec, mn, mx):
    mx = hs.pick(mx, MXLO, MXHI)
    mn = hs.pick(mn, 0, mx)
    atom = Terminal('X')
    e = EBNF_to_BNF()
    tree = e._generate_repeats(atom, mn, mx)
    with hs.untraced():
        rec['key'] = [mn, mx]
        rec['nontrivial'] = mx >= REPEAT_BREAK_THRESHOLD
        iv, pb = _count_language(tree, e.new_rules, atom)
        rec['count'] = {'helper_rules': len(e.new_rules), 'factored': int(mx >= REPEAT_BREAK_THRESHOLD)}
        if pb:
            return hs.fail(rec, 'x~%d..%d: %s' % (mn, mx, pb))
        if iv != (mn, mx):
            return hs.fail(rec, 'x~%d..%d compiles to rules matching exactly %d..%d occurrences' % (mn, mx, iv[0], iv[1]))
    return True


def gen(mn: int, mx: int) -> bool:
    """
    pre: MXLO <= mx <= MXHI and 0 <= mn <= mx
    post: _
    """
    return hs.run_path(_gen_body, (mn, mx), corner=lambda mn, mx: mx == MXHI and mn == MXHI - 1)


def worker_extra():
    if P.get('kind') == 'gen':
        return {'z3_queries': Z3STATS['queries'], 'z3_solver_s': round(Z3STATS['solver_s'], 3)}
    return {}


# ---------------------------------------------------------------------------------------------------------------------
X_KINDS = ['term', 'rule', 'group', 'tpl', 'alt', 'adj']

if P and P.get('kind') == 'e2e':
    from lark import Lark, Tree as LTree, Token
    from lark.exceptions import UnexpectedInput
    PAIRS = [tuple(p) for p in P['pairs']]
    PARSER = P['parser']
    XK = P['x']
    REAL = P.get('mode') == 'realised'

    def _grammar(n, m):
        rep = '~%d' % n if n == m else '~%d..%d' % (n, m)
        if XK == 'term':
            return 'start: A%s B?\n%%declare A B\n' % rep, 1
        if XK == 'rule':
            return 'start: x%s B?\nx: A\n%%declare A B\n' % rep, 1
        if XK == 'group':
            return 'start: (A C)%s B?\n%%declare A B C\n' % rep, 2
        if XK == 'adj':
            # two repetitions in adjacent rules (both may be empty at the same input position): k occurrences in each
            return 'start: A%s item\nitem: C%s B\n%%declare A B C\n' % (rep, rep), 1
        if XK == 'alt':
            # a group with alternatives: every occurrence chooses its alternative independently (the input alternates A, C)
            return 'start: (A | C)%s B?\n%%declare A B C\n' % rep, 1
        return 'start: rep{A} B?\nrep{t}: t%s\n%%declare A B\n' % rep, 1

    LARKS = {}
    for (n, m) in PAIRS:
        g, w = _grammar(n, m)
        LARKS[(n, m)] = (Lark(g, parser=PARSER, lexer=hs.make_list_lexer(['A', 'B', 'C'])), w)


def _e2e_body(rec, pi, dk, tail):
    pi = hs.pick(pi, 0, len(PAIRS) - 1)
    n, m = PAIRS[pi]
    dk = hs.pick(dk, 0, 3)
    k = [n - 1, n, m, m + 1][dk]
    tail = bool(tail)
    if k < 0:
        return True
    lk, w = LARKS[(n, m)]
    unit = [0, 2] if w == 2 else [0]
    ix = unit * k + ([1] if tail else [])
    if XK == 'alt':
        ix = [0 if i % 2 == 0 else 2 for i in range(k)] + ([1] if tail else [])
    if XK == 'adj':
        ix = [0] * k + [2] * k + [1]
    tree = exc = None
    if REAL:
        with hs.untraced():
            try:
                tree = lk.parse(ix)
            except UnexpectedInput as e:
                exc = e
    else:
        try:
            tree = lk.parse(ix)
        except UnexpectedInput as e:
            exc = e
    with hs.untraced():
        rec['key'] = [n, m, k, tail, XK, PARSER]
        rec['nontrivial'] = True
        rec['count'] = {'accepted': int(exc is None), 'factored': int(m >= 50)}
        want = n <= k <= m
        if want != (exc is None):
            return hs.fail(rec, 'x~%d..%d with %d occurrences: %s' % (n, m, k, 'rejected' if want else 'accepted'), x=XK, parser=PARSER)
        if exc is None and XK == 'adj':
            kids = tree.children
            ok = tree.data == 'start' and len(kids) == k + 1 and all(isinstance(c, Token) and c.type == 'A' for c in kids[:k]) and isinstance(kids[k], LTree) \
                and kids[k].data == 'item' and len(kids[k].children) == k + 1 and all(isinstance(c, Token) for c in kids[k].children) \
                and [c.type for c in kids[k].children] == ['C'] * k + ['B']
            if not ok:
                return hs.fail(rec, 'adjacent repetitions: children are not %d A, then item(%d C, B)' % (k, k), tree=str(tree)[:300])
            return True
        if exc is None:
            if XK == 'tpl':
                kids = tree.children
                if not (len(kids) >= 1 and isinstance(kids[0], LTree) and kids[0].data.startswith('rep')):
                    return hs.fail(rec, 'template instance node missing', tree=str(tree)[:200])
                inner = kids[0].children
                rest = kids[1:]
            else:
                inner = tree.children[:k * w]
                rest = tree.children[k * w:]
            ok = len(inner) == k * w and len(rest) == (1 if tail else 0)
            for c in inner:
                if XK == 'rule':
                    ok = ok and isinstance(c, LTree) and c.data == 'x'
                else:
                    ok = ok and isinstance(c, Token)
            if not ok or tree.data != 'start':
                return hs.fail(rec, 'matched occurrences are not %d consecutive children (helper node visible or children lost)' % (k * w),
                               tree=str(tree)[:300])
    return True


def e2e(pi: int, dk: int, tail: bool) -> bool:
    """
    pre: 0 <= pi < len(PAIRS) and 0 <= dk <= 3
    post: _
    """
    return hs.run_path(_e2e_body, (pi, dk, tail), corner=lambda pi, dk, tail: pi == len(PAIRS) - 1 and dk == 2 and tail)


# ---------------------------------------------------------------------------------------------------------------------
def run_lemma(job):
    """L-rep: language equivalence of the regexps built by the real TerminalTreeToPattern with Loop/Option/Star/Plus."""
    import z3
    from lark.load_grammar import TerminalTreeToPattern
    from lark.lexer import PatternStr, PatternRE
    from vfw import rxz3
    inners = {'a': PatternStr('a'), 'ab': PatternStr('ab'), '[ab]': PatternRE('[ab]'), 'a|bc': PatternRE('(?:a|bc)'), 'a+b': PatternRE('a+b'),
              # raw regexps with a top-level alternation (what a user writes as /a|b/): the quantifier must bind to the whole operand
              'raw:a|b': PatternRE('a|b'), 'raw:ab|c': PatternRE('ab|c'), 'raw:[ab]|c+': PatternRE('[ab]|c+')}
    inner = inners[job['inner']]
    tr = rxz3.Translator([(inner.to_regexp(), 0), ('[abc]', 0)])
    Rin = tr.translate(inner.to_regexp(), 0)
    T = TerminalTreeToPattern()
    queries = 0
    solver_s = 0.0
    viol = []
    inconcl = []
    samples = []
    s = z3.String('s')

    def equiv(R1, R2):
        nonlocal queries, solver_s
        sol = z3.Solver()
        sol.set('timeout', 20000)
        sol.add(z3.InRe(s, R1) != z3.InRe(s, R2))
        t0 = time.time()
        r = sol.check()
        solver_s += time.time() - t0
        queries += 1
        if str(r) == 'sat':
            return False, rxz3._pystr(sol.model()[s])
        return (True, None) if str(r) == 'unsat' else (None, None)

    cases = []
    for n in range(job['nlo'], job['nhi'] + 1):
        for m in range(n, job['mmax'] + 1):
            if m == 0:
                continue
            cases.append(('~', n, m))
    if job['nlo'] == 0:
        cases += [('?',), ('*',), ('+',)]
    for c in cases:
        if c[0] == '~':
            _, n, m = c
            pat = T.expr([inner, '~', n, m]) if n != m else T.expr([inner, '~', n])
            want = z3.Loop(Rin, n, m)
        elif c[0] == '?':
            pat = T.expr([inner, '?'])
            want = z3.Option(Rin)
        elif c[0] == '*':
            pat = T.expr([inner, '*'])
            want = z3.Star(Rin)
        else:
            pat = T.expr([inner, '+'])
            want = z3.Plus(Rin)
        rx = pat.to_regexp()
        ok, wit = equiv(tr.translate(rx, 0), want)
        if len(samples) < 2:
            samples.append({'inner': job['inner'], 'op': list(c), 'regexp': rx, 'equivalent': ok})
        if ok is None:
            inconcl.append([job['inner'], list(c), rx])
        elif not ok:
            import re
            real = re.fullmatch(rx, wit) is not None
            k = None
            viol.append({'fkey': 'L-rep:%s:%s' % (job['inner'], c), 'what': 'terminal %s%s compiles to %r; string %r is %s by it but should %sbe' %
                         (job['inner'], c, rx, wit, 'matched' if real else 'not matched', 'not ' if real else '')})
    return {'status': 'violated' if viol else ('inconclusive' if inconcl else 'holds'), 'queries': queries, 'solver_s': round(solver_s, 3),
            'distinct_nontrivial': queries, 'samples': samples, 'violations': viol[:5], 'detail': {'inconclusive': inconcl[:5]},
            'counts': {'rep_cases': len(cases)}}


def plan(tier, seed):
    quick = tier == 'quick'
    slices = []
    # small_factors, symbolic n
    if quick:
        bands = [(0, 400), (401, 800), (801, 1200)]
    else:
        bands = [(lo, lo + 1999) for lo in range(0, 40000, 2000)]
    for lo, hi in bands:
        slices.append({'id': 'sf:n%d-%d' % (lo, hi), 'func': 'sf', 'params': {'kind': 'sf', 'nmin': lo, 'nmax': hi}, 'timeout': 150 if quick else 2400,
                       'bound': {'n': [lo, hi], 'max_factor': [3, 7]}, 'twin': (lo, hi) == bands[-1]})
    # _generate_repeats, symbolic (mn, mx)
    mxhi = 66 if quick else 200
    step = 3 if quick else 6
    for lo in range(44, mxhi + 1, step):
        hi = min(lo + step - 1, mxhi)
        slices.append({'id': 'gen:mx%d-%d' % (lo, hi), 'func': 'gen', 'params': {'kind': 'gen', 'mxlo': lo, 'mxhi': hi},
                       'timeout': 200 if quick else 2400, 'bound': {'mx': [lo, hi], 'mn': [0, 'mx']}, 'twin': hi == mxhi})
    # end to end around the bounds
    base = [(0, 1), (0, 2), (1, 1), (2, 3), (3, 3), (0, 49), (49, 49), (0, 50), (50, 50), (49, 50), (50, 51), (1, 52), (25, 60), (51, 51), (7, 53)]
    if not quick:
        base += [(0, 64), (64, 64), (63, 65), (100, 100), (99, 101), (0, 125), (124, 126), (125, 125), (10, 130), (129, 130), (60, 121)]
    for x in X_KINDS:
        for parser in ('lalr', 'earley'):
            pairs = base if parser == 'lalr' or not quick else base[:11]
            if x == 'alt':
                # below lark's factoring threshold a repeated group with alternatives is expanded into 2^m alternatives (by design)
                pairs = [p for p in pairs if p[1] <= 3 or p[1] >= 50]
            slices.append({'id': 'e2e:%s:%s' % (x, parser), 'func': 'e2e', 'mode': 'traced' if parser == 'lalr' else 'realised',
                           'params': {'kind': 'e2e', 'pairs': pairs, 'parser': parser, 'x': x, 'mode': 'traced' if parser == 'lalr' else 'realised'},
                           'timeout': 300 if quick else 1200, 'bound': {'pairs': len(pairs), 'k': 'n-1, n, m, m+1'}})
    # x~n..m inside a terminal, through the scanners that match terminals themselves (dynamic Earley lexers): all class-strings
    Lt = 4 if quick else 8
    for lexer in ('dynamic', 'dynamic_complete'):
        slices.append({'id': 'txt:reptok:%s:L%d' % (lexer, Lt), 'module': 'vfw.harness.txt', 'mode': 'realised',
                       'params': {'g': 'reptok', 'parser': 'earley', 'lexer': lexer, 'L': Lt, 'asserts': ['member'], 'pin': None, 'mode': 'realised'},
                       'timeout': 200 if quick else 1500, 'bound': {'chars': Lt, 'classes': 3}})
    lemmas = []
    mmax = 40 if quick else 70
    for inner in ('a', 'ab', '[ab]', 'a|bc', 'a+b', 'raw:a|b', 'raw:ab|c', 'raw:[ab]|c+'):
        for nlo, nhi in ((0, 3), (4, 9), (10, 19), (20, mmax)):
            lemmas.append({'name': 'L-rep:%s:n%d-%d:m<=%d' % (inner, nlo, nhi, mmax), 'inner': inner, 'nlo': nlo, 'nhi': nhi, 'mmax': mmax,
                           'timeout': 900 if quick else 3000})
    meta = {
        'rule': 'sf: one path per factor chain; gen: one path per (mn, mx) with one z3 LIA query per generated helper rule; e2e: one path per '
                '(bounds, count, tail, item kind, parser); L-rep: one z3 regex-equivalence query per (item, n, m)',
        'technique': 'CrossHair symbolic execution of small_factors/_generate_repeats/real parsers + z3 LIA and regex-theory queries over generated artefacts',
        'functions_encoded': ['lark.utils.small_factors', 'lark.load_grammar.EBNF_to_BNF._generate_repeats/_add_repeat_rule/_add_repeat_opt_rule',
                              'lark.load_grammar.TerminalTreeToPattern.expr', 'lark.load_grammar (x~n..m in rules, templates)', 'LALR/Earley parse'],
        'bounds': {'small_factors_n': bands[-1][1], 'generate_repeats_mx': mxhi, 'terminal_rep_m': mmax, 'count_k': 'unbounded (LIA) per helper rule'},
        'outside_bounds': ['bounds above the stated maxima', 'terminals that can match the empty string'],
        'stubs_and_assumes': ['_generate_repeats driven as a unit on a Terminal atom; helper rules form a non-recursive DAG (checked: recursion would not terminate the interval inference)'],
    }
    return {'slices': slices, 'lemmas': lemmas, 'meta': meta}
