"""C14 - scan() yields leftmost-longest non-overlapping matches consistent with parse().

Symbolic input: class-string cs (len <= L) and a window [a, b) of it passed as TextSlice (symbolic ints), lexer in {basic, contextual},
str / bytes. Real code: ParsingFrontend._scan, BasicLexer.search_start / Scanner.search, LineCounter.advance_to, token replay.
The oracle is the property itself, evaluated natively with parse() on substrings:
  1 matches increasing and disjoint, inside the window;
  2 value == parse(text[s:e]); token positions / lines / columns are those of the full text (refsem.posref);
  3 no match starts or ends inside ignored text (the substring's own tokens start at 0 and end at its end);
  4 longest: no longer span from the same start parses;   5 nothing skipped: no span starting at a skipped position parses.
scan() tokenises in the context of the whole text while parse(text[s:e]) tokenises the substring alone, so 4 and 5 are asserted only
for spans whose isolated tokenisation equals their in-context tokenisation (both from the real lexer); excluded spans are counted.
"""
from typing import List

from vfw import hs, alpha
from vfw.refsem import posref

PROPERTY = 'C14'
P = hs.params()

GRAMMARS = {
    'ab': 'start: "a" "b"+ "c"? | "a"\n%ignore " "\n',
    'kwassign': 'start: NAME "=" NUM | "if" NAME\nNAME: /[a-z]+/\nNUM: /[0-9]+/\n%ignore /[ \\n]+/\n',
    'nested': 'start: item+\nitem: "(" item* ")" | W\nW: /[a-z]/\n%ignore /[ \\n]/\n',
    # overlapping start terminals: a proper suffix of the first token of a failed attempt begins a valid match
    'overlap': 'start: AB "c" | B "d" | "a" "a"\nAB: "ab"\nB: "b"\n%ignore " "\n',
    'nullable': 'start: item*\nitem: "<" W? ">"\nW: /[a-z]+/\n%ignore /[ \\n]/\n',
    # global regexp flags widen the start terminals: the search for match starts must see the same terminals as the lexer
    'abi': 'start: "a" "b"+ "c"? | "a"\n%ignore " "\n',
}
import re as _re
GRAMMAR_OPTS = {'abi': {'g_regex_flags': _re.I}}

if P:
    from lark import Lark, Tree, Token
    from lark.utils import TextSlice
    from lark.exceptions import UnexpectedInput
    from lark.lexer import LexerThread
    GNAME = P['g']
    LEXER = P['lexer']
    BYTES = P.get('bytes', False)
    L = P['L']
    PIN = P.get('pin')
    WINDOWS = P.get('windows', True)
    LARK = Lark(GRAMMARS[GNAME], parser='lalr', lexer=LEXER, use_bytes=BYTES, propagate_positions=True, **GRAMMAR_OPTS.get(GNAME, {}))
    BLEX = hs.basic_lexer_of(LARK)
    PART = alpha.partition(alpha.terminal_patterns(LARK), universe=range(256) if BYTES else range(0x250), is_bytes=BYTES)
    REPS = PART.reps(hs.SEED)
    K = PART.K


def worker_extra():
    return {'alphabet_classes': K}


def _lex(text_or_slice):
    """Tokens (type, start, end) of the real basic lexer until the end or the first lexing error."""
    out = []
    try:
        for t in LexerThread.from_text(BLEX, text_or_slice).lex(None):
            out.append((t.type, t.start_pos, t.end_pos))
        return out, True
    except UnexpectedInput:
        return out, False


def _tokens_of(tree, out):
    for c in tree.children:
        if isinstance(c, Tree):
            _tokens_of(c, out)
        elif isinstance(c, Token):
            out.append(c)


def _parses(sub):
    try:
        return LARK.parse(sub)
    except UnexpectedInput:
        return None


def _same_tokenisation(text, p, e, b):
    """Is the isolated tokenisation of text[p:e] the in-context tokenisation (window end b) cut at e?"""
    iso, ok = _lex(text[p:e])
    if not ok:
        return False
    ctx, _ = _lex(TextSlice(text, p, b))
    iso = [(t, s + p, x + p) for t, s, x in iso]
    return ctx[:len(iso)] == iso


def _body(rec, cs, a, b, whole):
    n = hs.pick(len(cs), 0, L)
    text = hs.class_string(cs, REPS, use_bytes=BYTES)
    if whole or not WINDOWS:
        a, b = 0, n
        arg = text
    else:
        a = hs.pick(a, 0, n)
        b = hs.pick(b, a, n)
        arg = TextSlice(text, a, b)
    with hs.untraced():
        # realised: text and window are concrete here
        rec['key'] = [text, a, b, bool(whole)]
        matches = [(m.range, m.value) for m in LARK.scan(arg)]
        rec['nontrivial'] = len(matches) > 0
        rec['count'] = {'cases': 1, 'matches': len(matches)}
        prev = a
        for (s, e), v in matches:
            if not (prev <= s < e <= b):
                return hs.fail(rec, 'matches not increasing / overlapping / outside the window', text=repr(text), window=[a, b], ranges=[list(r) for r, _ in matches])
            prev = e
            sub = text[s:e]
            want = _parses(sub)
            if want is None or want != v:
                return hs.fail(rec, 'match value differs from parse(text[start:end])', text=repr(text), span=[s, e], got=hs.plain(v), want=hs.plain(want) if want is not None else None)
            toks = []
            _tokens_of(v, toks)
            for t in toks:
                if text[t.start_pos:t.end_pos] != t.value or (t.line, t.column) != posref.coords(text, t.start_pos) or \
                        (t.end_line, t.end_column) != posref.end_coords(text, t.end_pos, 'basic'):
                    return hs.fail(rec, 'positions inside the match value are not those of the full text', text=repr(text), span=[s, e],
                                   token=[t.type, t.start_pos, t.end_pos, t.line, t.column, t.end_line, t.end_column])
            if isinstance(v, Tree) and not v.meta.empty:
                if (v.meta.start_pos, v.meta.end_pos) != (s, e):
                    return hs.fail(rec, 'meta of the match value does not span the match', text=repr(text), span=[s, e], meta=[v.meta.start_pos, v.meta.end_pos])
            # no match starts or ends inside ignored text
            iso, ok = _lex(sub)
            if not ok or not iso or iso[0][1] != 0 or iso[-1][2] != e - s:
                return hs.fail(rec, 'match starts or ends inside ignored text', text=repr(text), span=[s, e])
            # longest from its start
            for e2 in range(e + 1, b + 1):
                if _same_tokenisation(text, s, e2, b):
                    rec['count']['longer_spans_checked'] = rec['count'].get('longer_spans_checked', 0) + 1
                    iso2, _ = _lex(text[s:e2])
                    if iso2 and iso2[-1][2] == e2 - s and _parses(text[s:e2]) is not None:
                        return hs.fail(rec, 'a longer span from the same start parses', text=repr(text), match=[s, e], longer=[s, e2])
                else:
                    rec['count']['spans_excluded_by_tokenisation_guard'] = rec['count'].get('spans_excluded_by_tokenisation_guard', 0) + 1
        # nothing skipped
        covered = set()
        for (s, e), _ in matches:
            covered |= set(range(s, e))
        for p in range(a, b):
            if p in covered:
                continue
            for e2 in range(p + 1, b + 1):
                if _same_tokenisation(text, p, e2, b):
                    iso2, _ = _lex(text[p:e2])
                    if iso2 and iso2[0][1] == 0 and iso2[-1][2] == e2 - p:
                        rec['count']['skipped_spans_checked'] = rec['count'].get('skipped_spans_checked', 0) + 1
                        if _parses(text[p:e2]) is not None:
                            return hs.fail(rec, 'a skipped position starts a span that parses', text=repr(text), window=[a, b], span=[p, e2],
                                           ranges=[list(r) for r, _ in matches])
                else:
                    rec['count']['spans_excluded_by_tokenisation_guard'] = rec['count'].get('spans_excluded_by_tokenisation_guard', 0) + 1
    return True


def check(cs: List[int], a: int, b: int, whole: bool) -> bool:
    """
    pre: len(cs) <= L and (PIN is None or (len(cs) >= 1 and cs[0] == PIN) or (len(cs) == 0 and PIN == 0)) and (whole or 0 <= a <= b <= len(cs))
    post: _
    """
    return hs.run_path(_body, (cs, a, b, whole), corner=lambda cs, a, b, whole: len(cs) == L and hs.sel(cs[L - 1], K) == K - 1 and whole)


def plan(tier, seed):
    quick = tier == 'quick'
    Ks = {'ab': 5, 'kwassign': 10, 'nested': 6, 'nullable': 6, 'overlap': 6, 'abi': 5}
    slices = []
    for g, k in Ks.items():
        for lexer in ('basic', 'contextual'):
            for by in ((False, True) if g in ('ab', 'nullable') and (not quick or lexer == 'basic') else (False,)):
                Lg = (2 if k > 8 else 3) if quick else (3 if k > 8 else 4)
                n = sum((k ** i) * (1 + (i + 1) * (i + 2) // 2) for i in range(Lg + 1))
                pins = [None] if n * 0.05 < (90 if quick else 1500) else list(range(k))
                for pin in pins:
                    est = (n if pin is None else n / k) * 0.05
                    slices.append({'id': '%s:%s:%s:L%d%s' % (g, lexer, 'bytes' if by else 'str', Lg, '' if pin is None else ':pin%d' % pin), 'mode': 'realised',
                                   'params': {'g': g, 'lexer': lexer, 'bytes': by, 'L': Lg, 'pin': pin}, 'timeout': int(est * 3 + 60),
                                   'twin': pin in (None, k - 1), 'bound': {'chars': Lg, 'classes': k, 'windows': 'all [a, b)'}})
    # longer whole texts (no windows): over-reads that cross a newline before failing need 4-5 characters
    for g in (('nested', 'overlap') if quick else ('nested', 'overlap', 'nullable')):
        k = Ks[g]
        Lw = 4 if quick else 5
        for pin in range(k):
            slices.append({'id': '%s:contextual:str:L%d:whole:pin%d' % (g, Lw, pin), 'mode': 'realised',
                           'params': {'g': g, 'lexer': 'contextual', 'bytes': False, 'L': Lw, 'pin': pin, 'windows': False}, 'timeout': 600 if quick else 3000,
                           'twin': False, 'bound': {'chars': Lw, 'classes': k, 'windows': 'whole text only'}})
    meta = {
        'rule': 'one path per (class-string, window or whole text); non-trivial = at least one match',
        'technique': 'CrossHair solver-closed enumeration of class-strings and TextSlice windows (symbolic ints), realised; the property itself evaluated with parse() on substrings',
        'functions_encoded': ['lark.lark.Lark.scan', 'ParsingFrontend._scan', 'BasicLexer.search_start/search_scanner', 'Scanner.search', 'ContextualLexer.search_start',
                              'LineCounter.from_text_slice/advance_to', '_TextSlice_WithLineCount', 'InteractiveParser token replay'],
        'bounds': {'chars': 'see conditions', 'grammars': list(Ks)},
        'outside_bounds': ['longer texts', 'spans whose isolated tokenisation differs from the in-context one (counted, not asserted for the longest/skipped clauses)'],
        'stubs_and_assumes': ['parse() of the substring is the reference (relational property)'],
    }
    return {'slices': slices, 'meta': meta}
