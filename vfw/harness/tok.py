"""Token-level parse harness family (shared by C01, C02, C03, C08).

Symbolic input: ix: List[int], len <= L, token k has kind NAMES[ix[k] % K], realised lazily when the real parser pulls it.
Real code: Lark.parse -> ParsingFrontend -> earley.Parser / LALR _Parser / CYK, ParseTreeBuilder callbacks.
Oracle: refsem.cfg (membership, viable prefix, next terminals, derivations) + refsem.shape, run untraced on the pulled kinds.
"""
from typing import List

from vfw import hs, corpus
from vfw.refsem import cfg, shape

P = hs.params()

if P:
    from lark import Lark
    from lark.exceptions import UnexpectedInput, UnexpectedToken, UnexpectedEOF, UnexpectedCharacters, ParseError, GrammarError

    ENTRY = corpus.TOK[P['g']]
    GRAMMAR = ENTRY['g']
    NAMES = ENTRY['names']
    K = len(NAMES)
    L = P['L']
    PARSER = P['parser']
    ASSERTS = set(P.get('asserts', ['member']))
    COMPLETE = P.get('complete', True)
    PIN = P.get('pin')
    MP = P.get('mp', True)
    KAT = P.get('kat', False)
    AMBIG = P.get('ambiguity', 'resolve')
    BNF = cfg.BNF(GRAMMAR, maybe_placeholders=MP, keep_all_tokens=KAT)
    _opts = dict(parser=PARSER, lexer=hs.make_list_lexer(NAMES), maybe_placeholders=MP, keep_all_tokens=KAT)
    if PARSER == 'earley':
        _opts['ambiguity'] = AMBIG
    with hs.watchdog(30):
        LARK = Lark(GRAMMAR.render(), **_opts)
    TERMS = sorted(BNF.terminals)
    CORNER_KIND = P.get('corner_kind', K - 1)


def _body(rec, ix):
    exc = None
    tree = None
    with hs.watchdog():
        try:
            tree = LARK.parse(ix)
        except UnexpectedInput as e:
            exc = e
        except ParseError as e:
            if PARSER != 'cyk':
                raise
            exc = e
    with hs.untraced():
        kinds = list(hs.CUR['kinds'])
        n = len(kinds)
        accepted = exc is None
        rec['key'] = [kinds, accepted]
        rec['replay_args'] = [[NAMES.index(k) for k in kinds]]
        rec['nontrivial'] = n > 0
        rec['count'] = {'accepted': int(accepted), 'rejected': int(not accepted)}
        inp = cfg.TokenInput(kinds)
        recog = cfg.Recognizer(BNF, inp)
        is_member = recog.member()
        if accepted:
            # every token was pulled and the lexer ran dry
            if not is_member:
                return hs.fail(rec, 'accepted a non-sentence', kinds=kinds)
        else:
            # rejection after pulling `kinds`: legitimate iff the pulled sequence cannot be (extended to) a sentence that
            # the parser has fully seen. Either the last pulled token is the first offending one, or the input ended early.
            rec['exc'] = type(exc).__name__
            if PARSER == 'cyk':
                # CYK consumes the whole input first and raises ParseError without position
                if is_member and hs.CUR.get('ended'):
                    return hs.fail(rec, 'CYK rejected a sentence', kinds=kinds)
                if not hs.CUR.get('ended'):
                    return hs.fail(rec, 'CYK raised before consuming the input', kinds=kinds)
                return True
            ended = bool(hs.CUR.get('ended'))
            if not COMPLETE:
                return True     # LALR with shift/reduce conflicts: completeness is not promised
            if ended:
                if is_member:
                    return hs.fail(rec, 'rejected a sentence', kinds=kinds, exc=repr(exc))
            else:
                if cfg.viable_prefix(BNF, kinds):
                    return hs.fail(rec, 'rejected a viable prefix at token %d' % (n - 1), kinds=kinds, exc=repr(exc))
            if 'errpos' in ASSERTS:
                r = _check_error(rec, exc, kinds, ended)
                if r is not True:
                    return r
        if accepted and 'shape' in ASSERTS:
            ds = recog.derivations(limit=5000)
            shaped = [shape.shape_root(d, inp) for d in ds]
            got = shape.of_lark(tree)
            if not any(shape.same(s, got) for s in shaped):
                return hs.fail(rec, 'tree is not the documented shaping of any derivation', kinds=kinds, got=got,
                               expected_one_of=shaped[:4])
            rec['count']['unambiguous'] = int(len(shaped) == 1)
    return True


def _check_error(rec, exc, kinds, ended):
    """C08: class, position and continuation sets of a rejection (token level)."""
    n = len(kinds)
    first_bad = cfg.first_error_index(BNF, kinds)
    if not ended:
        # the parser stopped pulling at token n-1: it must be the first offending token
        if first_bad != n - 1:
            return hs.fail(rec, 'error raised at token %d but first offending token is %d' % (n - 1, first_bad), kinds=kinds)
        if not isinstance(exc, UnexpectedToken):
            return hs.fail(rec, 'offending token reported as %s' % type(exc).__name__, kinds=kinds)
        if exc.token.type != kinds[-1] or exc.token.start_pos != n - 1:
            return hs.fail(rec, 'UnexpectedToken carries the wrong token', kinds=kinds, token=[exc.token.type, exc.token.start_pos])
        viable = kinds[:-1]
    else:
        # all tokens consumed: the input is a proper prefix of a sentence (or, with an LALR parser that reduced too far, the
        # end marker is the first offending symbol)
        if first_bad != n:
            return hs.fail(rec, 'input consumed to the end but token %d was already offending' % first_bad, kinds=kinds)
        if isinstance(exc, UnexpectedEOF):
            pass
        elif isinstance(exc, UnexpectedToken) and exc.token.type == '$END':
            if n:
                if (exc.token.start_pos, exc.token.line, exc.token.column) != (n - 1, 1, n):
                    return hs.fail(rec, '$END does not carry the coordinates of the last token', kinds=kinds,
                                   token=[exc.token.start_pos, exc.token.line, exc.token.column])
        else:
            return hs.fail(rec, 'premature end reported as %s' % type(exc).__name__, kinds=kinds)
        viable = kinds
    nxt = cfg.next_terms(BNF, viable, terminals=TERMS)
    rec['count']['errors_checked'] = 1
    if PARSER == 'earley':
        expected = set(exc.expected)
        if not (nxt - {'$END'}) <= expected:
            return hs.fail(rec, 'Earley expected set misses legal continuations', kinds=kinds, expected=sorted(expected), legal=sorted(nxt))
    elif PARSER == 'lalr' and isinstance(exc, UnexpectedToken):
        accepts = set(exc.accepts)
        expected = set(exc.expected)
        if not accepts <= nxt:
            return hs.fail(rec, 'accepts contains a terminal that cannot come next', kinds=kinds, accepts=sorted(accepts), legal=sorted(nxt))
        if not accepts <= expected:
            return hs.fail(rec, 'accepts not contained in expected', kinds=kinds, accepts=sorted(accepts), expected=sorted(expected))
    return True


def _corner(ix):
    return len(ix) == L and hs.sel(ix[L - 1], K) == CORNER_KIND


def check(ix: List[int]) -> bool:
    """
    pre: len(ix) <= L and (PIN is None or (len(ix) >= 1 and ix[0] == PIN) or (len(ix) == 0 and PIN == 0))
    post: _
    """
    return hs.run_path(_body, (ix,), corner=_corner)
