"""C15 - input representation does not matter: str, bytes and TextSlice agree.

Symbolic: ASCII class-string cs (len <= L), junk prefix / suffix from a fixed list of 8 pairs (newlines, brackets, comment starts), window given through symbolic ints that
may also be negative indices (TextSlice.__post_init__), representation in {str, bytes + use_bytes, TextSlice(str), TextSlice(bytes)},
every lexer that accepts the representation. The str parse of the bare text is the reference: same tree shape, token types and
values, same error class and position; positions are offsets / lines / columns in the underlying buffer, i.e. the window result equals
the substring result shifted by the window start with lines and columns counted from the buffer start (refsem.posref)."""
from typing import List

from vfw import hs, corpus, alpha
from vfw.refsem import posref

PROPERTY = 'C15'
P = hs.params()

CONFIGS = [('lalr', 'basic'), ('lalr', 'contextual'), ('earley', 'basic'), ('earley', 'dynamic'), ('earley', 'dynamic_complete'), ('cyk', 'basic')]

if P:
    from lark import Lark, Tree, Token
    from lark.utils import TextSlice
    from lark.exceptions import UnexpectedInput, ParseError
    GNAME = P['g']
    GRAMMAR = corpus.TXT[GNAME]['g']
    PARSER, LEXER = P['parser'], P['lexer']
    L, J = P['L'], P['J']
    PIN = P.get('pin')
    S = Lark(GRAMMAR.render(), parser=PARSER, lexer=LEXER, propagate_positions=True)
    B = Lark(GRAMMAR.render(), parser=PARSER, lexer=LEXER, propagate_positions=True, use_bytes=True)
    PART = alpha.partition(alpha.terminal_patterns(S), universe=range(128))
    REPS = PART.reps(hs.SEED)
    K = PART.K
    SLICES_OK = LEXER in ('basic', 'contextual')
    ONERR_OK = PARSER == 'lalr'
    NJUNK = P.get('njunk', 8)
    # the dynamic lexers refuse windows that are not the complete text (TypeError, documented): a window they do take must still be right
    REPRS = ['bytes', 'slice_str', 'slice_bytes', 'slice_str_neg', 'whole_slice'] if SLICES_OK else ['bytes', 'whole_slice', 'slice_str']


def worker_extra():
    return {'alphabet_classes': K}


def _val(v):
    return v.decode('latin-1') if isinstance(v, bytes) else v


def _norm(t, shift, buf):
    """Tree -> tuples with token positions; `shift`/`buf`: expected positions are recomputed from the buffer, so only offsets are shifted."""
    if isinstance(t, Tree):
        m = t.meta
        mm = None if m.empty else (m.start_pos - shift, m.end_pos - shift)
        return ('tree', str(t.data), mm) + tuple(_norm(c, shift, buf) for c in t.children)
    if isinstance(t, Token):
        return ('tok', str(t.type), _val(t.value), t.start_pos - shift, t.end_pos - shift)
    return t


def _coords_ok(t, buf, family):
    """Every token / meta line+column are those of its offset in the underlying buffer."""
    if isinstance(t, Tree):
        m = t.meta
        if not m.empty:
            if (m.line, m.column) != posref.coords(buf, m.start_pos) or (m.end_line, m.end_column) != posref.end_coords(buf, m.end_pos, family):
                return ('meta', m.start_pos, m.end_pos, m.line, m.column, m.end_line, m.end_column)
        for c in t.children:
            r = _coords_ok(c, buf, family)
            if r is not True:
                return r
        return True
    if isinstance(t, Token):
        if (t.line, t.column) != posref.coords(buf, t.start_pos) or (t.end_line, t.end_column) != posref.end_coords(buf, t.end_pos, family, t.start_pos):
            return ('token', str(t.type), t.start_pos, t.line, t.column, t.end_line, t.end_column)
    return True


def _skip(e):
    return True


def _run(lk, arg, shift, buf, onerr=False):
    try:
        t = lk.parse(arg, on_error=_skip) if onerr else lk.parse(arg)
        return ('tree', _norm(t, shift, buf)), t
    except UnexpectedInput as e:
        pos = e.pos_in_stream
        return ('error', type(e).__name__, None if pos is None or pos < 0 else pos - shift), None
    except ParseError as e:
        if PARSER != 'cyk':
            raise
        return ('error', 'ParseError', None), None


# the quick tier uses the first four: no junk, suffix only (the window starts at offset 0, and [0, 0) for the empty text), both without
# newlines, a prefix that moves the line
JUNK = [('', ''), ('', '\n\n'), ('a', ' '), ('(\n', ')'), ('\n', ''), (' ', '\n'), ('#', 'x'), ('ab\n', '')]


def _body(rec, cs, jk, ri, onerr):
    text = hs.class_string(cs, REPS)
    junk1, junk2 = JUNK[hs.sel(jk, NJUNK)]
    ri = hs.sel(ri, len(REPRS))
    rep = REPRS[ri]
    # the documented error recovery (on_error returning True skips the offending character / token): LALR only
    onerr = bool(onerr) and PARSER == 'lalr'
    family = 'basic' if LEXER in ('basic', 'contextual') else 'dynamic'
    with hs.untraced():
        # realised: all three strings are concrete here
        rec['key'] = [junk1, text, junk2, rep, onerr]
        ref, ref_tree = _run(S, text, 0, text, onerr)
        rec['nontrivial'] = ref[0] == 'tree' and len(text) > 0
        rec['count'] = {'cases': 1, 'accepted': int(ref[0] == 'tree')}
        if ref_tree is not None:
            r = _coords_ok(ref_tree, text, family)
            if r is not True:
                return hs.fail(rec, 'str: line/column are not those of the offset', text=repr(text), where=list(r))
        if rep == 'bytes':
            if junk1 or junk2:
                return True
            buf = text.encode('ascii')
            got, tree = _run(B, buf, 0, buf, onerr)
        elif rep == 'whole_slice':
            if junk1 or junk2:
                return True
            buf = text
            try:
                got, tree = _run(S, TextSlice(text, 0, len(text)), 0, buf, onerr)
            except TypeError as e:
                return hs.fail(rec, 'a TextSlice covering the complete text is refused: %s' % e, text=repr(text), lexer=LEXER)
        else:
            full = junk1 + text + junk2
            a, b = len(junk1), len(junk1) + len(text)
            if rep == 'slice_str_neg':
                # negative indices, as str slicing understands them (b == len(full) cannot be written as a negative index)
                if not junk2:
                    return True
                buf = full
                got, tree = _run(S, TextSlice(full, a - len(full), b - len(full)), a, buf, onerr)
            elif rep == 'slice_str':
                buf = full
                try:
                    got, tree = _run(S, TextSlice(full, a, b), a, buf, onerr)
                except TypeError:
                    if SLICES_OK or not (junk1 or junk2):
                        raise
                    rec['count']['window_refused'] = 1
                    return True
            else:
                buf = full.encode('ascii')
                got, tree = _run(B, TextSlice(buf, a, b), a, buf, onerr)
        if got != ref:
            return hs.fail(rec, '%s differs from the str parse of the same text' % rep, text=repr(text), junk=[junk1, junk2], got=repr(got)[:300], want=repr(ref)[:300])
        if tree is not None:
            r = _coords_ok(tree, buf, family)
            if r is not True:
                return hs.fail(rec, '%s: line/column are not those of the offset in the underlying buffer' % rep, text=repr(text), junk=[junk1, junk2], where=list(r))
    return True


def check(cs: List[int], jk: int, ri: int, onerr: bool) -> bool:
    """
    pre: len(cs) <= L and (PIN is None or (len(cs) >= 1 and cs[0] == PIN) or (len(cs) == 0 and PIN == 0)) and (ONERR_OK or not onerr)
    post: _
    """
    return hs.run_path(_body, (cs, jk, ri, onerr), corner=lambda cs, jk, ri, onerr: len(cs) == L and hs.sel(cs[L - 1], K) == K - 1 and hs.sel(jk, NJUNK) == 0)


def plan(tier, seed):
    quick = tier == 'quick'
    slices = []
    Ks = {'lines': 8, 'nlvia': 8, 'kwfold': 7}
    for g, k in Ks.items():
        for parser, lexer in CONFIGS:
            if parser == 'cyk':
                continue        # CYK needs an epsilon-free grammar; the text corpus uses * and ?
            if g == 'nlvia' and (quick and lexer not in ('contextual', 'dynamic')):
                continue
            if g == 'kwfold' and lexer not in ('contextual', 'basic'):
                continue        # keyword re-typing is the basic lexers' business
            Lg = (3 if (lexer in ('contextual', 'dynamic') and g in ('lines', 'kwfold')) else 2) if quick else 3
            Jg = 1
            for pin in (range(k) if Lg >= 3 else [None]):
                slices.append({'id': '%s:%s:%s:L%d%s' % (g, parser, lexer, Lg, '' if pin is None else ':pin%d' % pin), 'mode': 'realised',
                               'params': {'g': g, 'parser': parser, 'lexer': lexer, 'L': Lg, 'J': Jg, 'pin': pin, 'njunk': 4 if quick else 8}, 'timeout': 400 if quick else 3000,
                               'twin': pin in (None, k - 1), 'bound': {'chars': Lg, 'junk': Jg, 'classes': k}})
    meta = {
        'rule': 'one path per (class-string, junk prefix, junk suffix, representation); non-trivial = accepted non-empty text',
        'technique': 'CrossHair solver-closed enumeration (realised) of texts, enclosing buffers and representations through the real front ends; the str parse is the reference',
        'functions_encoded': ['lark.utils.TextSlice.__post_init__/cast_from/is_complete_text', 'lark.lexer.LexerThread.from_text', 'LexerState', 'LineCounter.from_text_slice',
                              'BasicLexer.next_token (text.end)', 'Scanner.match (pos, endpos)', 'lark.parsers.xearley (bytes)', 'ParsingFrontend.parse'],
        'bounds': {'chars': 3, 'junk_pairs': 8, 'representations': ['bytes', 'TextSlice(str)', 'TextSlice(bytes)', 'TextSlice with negative indices', 'TextSlice of the whole text']},
        'outside_bounds': ['non-ASCII input', 'longer texts / junk', 'CYK (needs epsilon-free grammars)'],
        'stubs_and_assumes': ['dynamic lexers accept only complete-text slices (documented): windows are exercised on basic/contextual'],
    }
    return {'slices': slices, 'meta': meta}
