"""C08 - rejections are UnexpectedInput errors at the first offending position, with trustworthy continuation sets."""
from vfw import corpus
from vfw.harness.planutil import tok_slices

PROPERTY = 'C08'

LALR_OK = ['lrec', 'rrec', 'mid', 'nullstart', 'nullchain', 'nullmid', 'ebnf', 'lalr_not_slr', 'nullable_suffix', 'list_sep', 'shape1', 'shape2',
           'expr', 'dangling', 'rr_prio']


def plan(tier, seed):
    quick = tier == 'quick'
    L = 4 if quick else 6
    budget = 60 if quick else 900
    slices = []
    for g in corpus.TOK:
        if g in ('shape4',) and quick:
            continue
        slices += tok_slices('err', g, 'earley', L, ['member', 'errpos'], 0.35, budget)
    for g in LALR_OK:
        slices += tok_slices('err', g, 'lalr', L + 1, ['member', 'errpos'], 0.07, budget, complete=g not in ('expr', 'dangling', 'rr_prio'))
    for g in corpus.tok_names('cnf_ok'):
        slices += tok_slices('err', g, 'cyk', L, ['member'], 0.15, budget)
    # text level, dynamic Earley lexers: class, position (= the last token-complete viable boundary) and exact continuation sets
    TK = {'lines': 8, 'letx': 9, 'collide': 5, 'ign2': 5, 'nulltxt': 6, 'dotall': 7, 'opttail': 6}
    for g, k in TK.items():
        for lexer in ('dynamic', 'dynamic_complete'):
            Lt = 3 if quick else 4
            npaths = sum(k ** n for n in range(Lt + 1))
            pins = [None] if npaths * 0.1 <= budget else list(range(k))
            for pin in pins:
                est = (npaths if pin is None else npaths / k) * 0.1
                slices.append({'id': 'txt:%s:%s:L%d%s' % (g, lexer, Lt, '' if pin is None else ':pin%d' % pin), 'module': 'vfw.harness.txt', 'mode': 'realised',
                               'params': {'g': g, 'parser': 'earley', 'lexer': lexer, 'L': Lt, 'asserts': ['member', 'errpos'], 'pin': pin, 'mode': 'realised'},
                               'timeout': int(est * 2.5 + 40), 'twin': pin in (None, k - 1), 'bound': {'chars': Lt, 'classes': k}})
    # text level, basic/contextual lexers: class, offset and line/column of the first offending token or character
    for g, k in {'lines': 8, 'nlvia': 8, 'meta1': 7, 'kwfold': 7, 'unusedterm': 4}.items():
        for parser, lexer in (('lalr', 'contextual'), ('lalr', 'basic'), ('earley', 'basic')):
            Lt = 3 if quick else 5
            npaths = sum(k ** n for n in range(Lt + 1))
            pins = [None] if npaths * 0.02 <= budget else list(range(k))
            for pin in pins:
                est = (npaths if pin is None else npaths / k) * 0.02
                slices.append({'id': 'txtb:%s:%s:%s:L%d%s' % (g, parser, lexer, Lt, '' if pin is None else ':pin%d' % pin), 'module': 'vfw.harness.txt', 'mode': 'realised',
                               'params': {'g': g, 'parser': parser, 'lexer': lexer, 'L': Lt, 'asserts': ['errpos'], 'pin': pin, 'mode': 'realised'},
                               'timeout': int(est * 2.5 + 40), 'twin': pin in (None, k - 1), 'bound': {'chars': Lt, 'classes': k}})
    meta = {
        'rule': 'one path per viable token prefix plus one rejecting extension; every rejection is checked for class, first-offending-token position and '
                'expected/accepts sets against the reference viable-prefix / next-terminal computation',
        'technique': 'CrossHair symbolic execution of the real parsers; any exception type other than UnexpectedInput escapes as a counterexample; watchdog for hangs',
        'functions_encoded': ['lark.parsers.earley.Parser._parse/parse (UnexpectedToken, UnexpectedEOF)', 'lark.parsers.lalr_parser_state.ParserState.feed_token',
                              'lark.parsers.lalr_parser._Parser.parse_from_state', 'lark.exceptions.UnexpectedToken.accepts',
                              'lark.parsers.lalr_interactive_parser.InteractiveParser.accepts', 'lark.parser_frontends.CYK_FrontEnd'],
        'bounds': {'tokens': L, 'grammars': len(corpus.TOK)},
        'outside_bounds': ['grammars with unproductive rules', 'longer inputs', 'text level with the basic/contextual lexers: grammars whose lexing depends on the parser state (C07 ctxref covers their lexing)'],
        'stubs_and_assumes': ['tokens supplied by the documented custom-lexer interface; positions are token indices'],
    }
    return {'slices': slices, 'meta': meta}
