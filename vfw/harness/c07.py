"""C07 - the lexer tiles the input by documented precedence; the contextual lexer refines the basic one.

 lex   (CrossHair): class-strings through the real BasicLexer (sort, _create_unless, UnlessCallback, Scanner._build_mres/match,
       next_token) vs. refsem.lexref (documented order + keyword exception); str and bytes.
 many  (CrossHair): 130 terminals (forces Scanner._build_mres chunking); token-composed texts around the chunk boundary.
 ctxref (CrossHair): lexer='contextual' parse vs. a reference that makes the documented choice restricted to the terminals the parser
       (a fresh interactive LALR parser) can accept next; catches history dependence of the contextual lexer.
 ctx   (CrossHair): for grammars whose regexp terminals are pairwise disjoint (decided by z3), basic parse succeeds => contextual
       parse succeeds with an equal tree.
 L-kw  (z3): for every (string, regexp) terminal pair of equal priority: the string is in L(R) (z3, regex theory) <=> the real
       UnlessCallback table re-types it; L-disj: pairwise disjointness of regexp terminals (emptiness of the intersection).
"""
import time
from typing import List

from vfw import hs, corpus, alpha
from vfw.refsem import lexref

PROPERTY = 'C07'
P = hs.params()

MANY_N = 130

CTX_GRAMMARS = ['lines', 'kw', 'letx', 'nlvia']


def _many_grammar():
    names = ['T%03d' % i for i in range(MANY_N)]
    terms = ''.join('%s: "k%03d"\n' % (n, i) for i, n in enumerate(names))
    return 'start: (%s | NAME)*\n%sNAME: /[a-z]+[0-9]*/\n%%ignore " "\n' % (' | '.join(names), terms)


if P and P.get('kind') == 'lex':
    from lark import Lark
    from lark.exceptions import UnexpectedCharacters, UnexpectedInput
    ENTRY = corpus.LEX[P['g']]
    GRAMMAR = ENTRY['g']
    BYTES = P.get('bytes', False)
    L = P['L']
    PIN = P.get('pin')
    LARK = Lark(GRAMMAR.render(), parser='lalr', lexer='basic', use_bytes=BYTES)
    PART = alpha.partition(alpha.terminal_patterns(LARK), universe=range(256) if BYTES else range(0x250), is_bytes=BYTES)
    REPS = PART.reps(hs.SEED)
    K = PART.K
    TERMS = lexref.from_dsl(GRAMMAR, LARK, as_bytes=BYTES)
    LEXER = hs.basic_lexer_of(LARK)
    IGNORE_NAMES = [n for n in GRAMMAR.ignore if not (n.startswith('/') or n.startswith('"'))] + [str(t.name) for t in LARK.terminals if str(t.name).startswith('__IGNORE')]

if P and P.get('kind') == 'many':
    from lark import Lark
    from lark.exceptions import UnexpectedCharacters, UnexpectedInput
    LARK = Lark(_many_grammar(), parser='lalr', lexer='basic')
    TERMS = lexref.from_lark(LARK)
    LEXER = hs.basic_lexer_of(LARK)
    LEXEMES = ['k000', 'k098', 'k099', 'k100', 'k101', 'k129', 'k13', 'kx', ' ', 'k1290']
    L = P['L']
    K = len(LEXEMES)
    PIN = None

if P and P.get('kind') == 'ctx':
    from lark import Lark
    from lark.exceptions import UnexpectedInput
    ENTRY = corpus.TXT[P['g']]
    GRAMMAR = ENTRY['g']
    L = P['L']
    PIN = P.get('pin')
    BASIC = Lark(GRAMMAR.render(), parser='lalr', lexer='basic')
    CTX = Lark(GRAMMAR.render(), parser='lalr', lexer='contextual')
    PART = alpha.partition(alpha.terminal_patterns(BASIC))
    REPS = PART.reps(hs.SEED)
    K = PART.K


if P and P.get('kind') == 'ctxref':
    from lark import Lark, Token
    from lark.exceptions import UnexpectedInput, UnexpectedToken, UnexpectedCharacters
    ENTRY = corpus.TXT[P['g']]
    GRAMMAR = ENTRY['g']
    L = P['L']
    PIN = P.get('pin')
    CTX = Lark(GRAMMAR.render(), parser='lalr', lexer='contextual')
    REFPARSER = Lark(GRAMMAR.render(), parser='lalr', lexer='basic')      # only its parse table is used by the reference (fed token by token)
    PART = alpha.partition(alpha.terminal_patterns(CTX))
    REPS = PART.reps(hs.SEED)
    K = PART.K
    TERMS = lexref.from_lark(CTX)
    TNAMES = {t.name for t in TERMS}
    IGNORE = set(CTX.ignore_tokens)
    CTX_LEX = {'kw': ['if', 'ab', '=', 'else', '7', 'ELSE', 'iff'], 'letx': ['let', 'x', '=', '1', 'le', 'lett']}.get(P['g'])
    DOMAIN = P.get('domain', 'chars')
    if DOMAIN == 'lexemes':
        K = len(CTX_LEX)


def _ref_contextual(text):
    """Reference: at every position the documented choice restricted to the terminals the parser can accept next (plus ignored ones);
    the parser is a fresh interactive LALR parser fed token by token. Returns ('tree', t) | ('error', pos)."""
    ip = REFPARSER.parse_interactive()
    state = {'allowed': None}

    def allowed(pos, toks):
        return {t for t in ip.choices() if t in TNAMES} | IGNORE
    ordered = lexref.order(TERMS)
    strs = [t for t in ordered if t.is_str]
    pos = 0
    last = None
    n = len(text)
    while pos < n:
        ok = allowed(pos, None)
        chosen = m = None
        for t in ordered:
            if t.name not in ok:
                continue
            m = t.rx.match(text, pos)
            if m and m.end() > pos:
                chosen = t
                break
        if chosen is None:
            return ('error', pos)
        value = m.group(0)
        typ = chosen.name
        if not chosen.is_str:
            for s in strs:
                if s.priority == chosen.priority and s.name in ok and s.rx.fullmatch(value):
                    typ = s.name
                    break
        if typ not in IGNORE:
            tok = Token(typ, value, pos)
            try:
                ip.feed_token(tok)
            except UnexpectedToken:
                return ('error', pos)
            last = tok
        pos = m.end()
    try:
        return ('tree', ip.feed_eof(last))
    except UnexpectedToken:
        return ('error', n if last is None else last.start_pos)


def _ctxref_body(rec, cs):
    if DOMAIN == 'lexemes':
        idx = [hs.sel(c, K) for c in cs]
        text = ' '.join(CTX_LEX[i] for i in idx)
    else:
        text = hs.class_string(cs, REPS)
    got = None
    try:
        got = ('tree', CTX.parse(text))
    except UnexpectedInput as e:
        got = ('error', e.pos_in_stream)
    with hs.untraced():
        rec['key'] = text
        rec['replay_args'] = [idx] if DOMAIN == 'lexemes' else [[PART.class_of[ord(ch)] for ch in text]]
        want = _ref_contextual(text)
        rec['nontrivial'] = want[0] == 'tree' and len(text) > 0
        rec['count'] = {'texts': 1, 'accepted': int(want[0] == 'tree')}
        if got[0] != want[0]:
            return hs.fail(rec, 'lexer=contextual %s, reference (documented choice restricted to the acceptable terminals) %s' %
                           ('accepts' if got[0] == 'tree' else 'rejects at %s' % got[1], 'accepts' if want[0] == 'tree' else 'rejects at %s' % want[1]), text=repr(text))
        if got[0] == 'tree' and got[1] != want[1]:
            return hs.fail(rec, 'lexer=contextual tree differs from the reference', text=repr(text), got=hs.plain(got[1]), want=hs.plain(want[1]))
    return True


def ctxref(cs: List[int]) -> bool:
    """
    pre: len(cs) <= L and (PIN is None or (len(cs) >= 1 and cs[0] == PIN) or (len(cs) == 0 and PIN == 0))
    post: _
    """
    return hs.run_path(_ctxref_body, (cs,), corner=lambda cs: len(cs) == L and hs.sel(cs[L - 1], K) == K - 1)


def worker_extra():
    if P.get('kind') in ('lex', 'ctx', 'ctxref'):
        return {'alphabet_classes': K}
    return {}


def _lex_body(rec, cs):
    if P['kind'] == 'many':
        text = ''.join(LEXEMES[hs.sel(c, K)] for c in cs)
        ignore = ['__IGNORE_0']
    else:
        text = hs.class_string(cs, REPS, use_bytes=BYTES)
        ignore = IGNORE_NAMES
    got = gerr = None
    try:
        got = [(t.type, t.value, t.start_pos, t.end_pos) for t in hs.lex_tokens(LEXER, text)]
    except UnexpectedCharacters as e:
        gerr = e.pos_in_stream
    with hs.untraced():
        rec['key'] = text
        rec['nontrivial'] = len(text) > 0
        if P['kind'] == 'many':
            ignore = [t.name for t in TERMS if t.name.startswith('__IGNORE')] or list(LARK.ignore_tokens)
        want, werr = lexref.lex(text, TERMS, ignore=ignore)
        rec['count'] = {'texts': 1, 'lex_errors': int(werr is not None), 'tokens': len(want)}
        if gerr != werr:
            return hs.fail(rec, 'lexing %s at %s, reference: %s' % ('fails' if gerr is not None else 'succeeds', gerr, werr), text=repr(text))
        if gerr is None:
            if got != want:
                return hs.fail(rec, 'tokens differ from the documented precedence', text=repr(text), got=[list(x) for x in got][:6], want=[list(x) for x in want][:6])
            # tiling: consecutive, non-empty, non-overlapping, inside the text (gaps are ignored terminals, by equality with the reference)
            pos = 0
            for typ, val, s, e in got:
                if not (pos <= s < e <= len(text)) or text[s:e] != val:
                    return hs.fail(rec, 'tokens do not tile the input', text=repr(text))
                pos = e
    return True


def lex(cs: List[int]) -> bool:
    """
    pre: len(cs) <= L and (PIN is None or (len(cs) >= 1 and cs[0] == PIN) or (len(cs) == 0 and PIN == 0))
    post: _
    """
    return hs.run_path(_lex_body, (cs,), corner=lambda cs: len(cs) == L and hs.sel(cs[L - 1], K) == K - 1)


def _ctx_body(rec, cs):
    text = hs.class_string(cs, REPS)
    tb = eb = None
    try:
        tb = BASIC.parse(text)
    except UnexpectedInput as e:
        eb = e
    rec['key'] = text
    rec['nontrivial'] = tb is not None and len(text) > 0
    rec['count'] = {'texts': 1, 'basic_accepts': int(tb is not None)}
    if tb is None:
        return True
    try:
        tc = CTX.parse(text)
    except UnexpectedInput as e:
        return hs.fail(rec, 'lexer=basic accepts but lexer=contextual rejects', text=repr(text), exc=repr(e))
    if tc != tb:
        return hs.fail(rec, 'contextual lexer yields a different tree', text=repr(text), basic=hs.plain(tb), contextual=hs.plain(tc))
    return True


def ctx(cs: List[int]) -> bool:
    """
    pre: len(cs) <= L and (PIN is None or (len(cs) >= 1 and cs[0] == PIN) or (len(cs) == 0 and PIN == 0))
    post: _
    """
    return hs.run_path(_ctx_body, (cs,), corner=lambda cs: len(cs) == L and hs.sel(cs[L - 1], K) == K - 1)


# ---------------------------------------------------------------------------------------------------------------------
def run_lemma(job):
    import z3
    from lark import Lark
    from lark.lexer import PatternStr, PatternRE, UnlessCallback, CallChain
    from vfw import rxz3
    queries = 0
    solver_s = 0.0
    viol = []
    samples = []
    inconcl = []
    counts = {'kw_pairs': 0, 'disjoint_pairs': 0, 'overlapping_pairs': 0}
    detail = {}
    grammars = [(n, e['g']) for n, e in corpus.LEX.items()] + [(n, corpus.TXT[n]['g']) for n in CTX_GRAMMARS]
    for gname, g in grammars:
        lk = Lark(g.render(), parser='lalr', lexer='basic')
        lexer = lk.parser.lexer
        lexer.scanner       # builds the callback table
        flags = lk.options.g_regex_flags
        pats = [(t.pattern.to_regexp(), flags) for t in lk.terminals]
        tr = rxz3.Translator(pats)
        res = [t for t in lk.terminals if isinstance(t.pattern, PatternRE)]
        strs = [t for t in lk.terminals if isinstance(t.pattern, PatternStr)]
        s = z3.String('s')
        if job['kind'] == 'kw':
            for r in res:
                R = tr.translate(r.pattern.to_regexp(), flags)
                cb = lexer.callback.get(r.name)
                for st in strs:
                    if st.priority != r.priority:
                        # different priority: the keyword exception must not apply (real table must not re-type the literal)
                        u = cb
                        while isinstance(u, CallChain):
                            u = u.callback1
                        counts['kw_pairs'] += 1
                        if isinstance(u, UnlessCallback) and u.scanner.fullmatch(st.pattern.value) == st.name:
                            viol.append({'fkey': 'L-kw:%s:%s:%s:prio' % (gname, r.name, st.name),
                                         'what': 'grammar %s: %s (priority %d) re-types matches to the string terminal %s of a different priority (%d)' %
                                                 (gname, r.name, r.priority, st.name, st.priority)})
                        continue
                    lit = st.pattern.value
                    sol = z3.Solver()
                    sol.set('timeout', 10000)
                    # the literal itself must be over the representative alphabet: map each character to its class representative
                    lit_rep = ''.join(tr.rep_chars[tr.part.class_of[ord(ch)]] for ch in lit)
                    sol.add(z3.InRe(z3.StringVal(lit_rep), R))
                    t0 = time.time()
                    ans = str(sol.check())
                    solver_s += time.time() - t0
                    queries += 1
                    counts['kw_pairs'] += 1
                    if ans not in ('sat', 'unsat'):
                        inconcl.append([gname, r.name, st.name, ans])
                        continue
                    in_lang = ans == 'sat'
                    # real table: does the UnlessCallback of r re-type the literal?
                    real = False
                    if cb is not None:
                        u = cb
                        while isinstance(u, CallChain):
                            u = u.callback1
                        if isinstance(u, UnlessCallback):
                            real = u.scanner.fullmatch(lit) == st.name
                    if len(samples) < 3:
                        samples.append({'grammar': gname, 'regexp_terminal': r.name, 'string_terminal': st.name, 'z3_in_language': in_lang, 'real_unless': real})
                    if in_lang != real:
                        viol.append({'fkey': 'L-kw:%s:%s:%s' % (gname, r.name, st.name),
                                     'what': 'grammar %s: literal %r of %s is %sin L(%s) (z3) but the real UnlessCallback table %s it' %
                                             (gname, lit, st.name, '' if in_lang else 'not ', r.name, 're-types' if real else 'does not re-type')})
        else:
            overl = []
            for i, r1 in enumerate(res):
                for r2 in res[i + 1:]:
                    sol = z3.Solver()
                    sol.set('timeout', 20000)
                    sol.add(z3.InRe(s, tr.translate(r1.pattern.to_regexp(), flags)))
                    sol.add(z3.InRe(s, tr.translate(r2.pattern.to_regexp(), flags)))
                    t0 = time.time()
                    ans = str(sol.check())
                    solver_s += time.time() - t0
                    queries += 1
                    if ans == 'unsat':
                        counts['disjoint_pairs'] += 1
                    elif ans == 'sat':
                        counts['overlapping_pairs'] += 1
                        overl.append([r1.name, r2.name, rxz3._pystr(sol.model()[s])])
                    else:
                        inconcl.append([gname, r1.name, r2.name, ans])
            detail[gname] = {'regexp_terminals_pairwise_disjoint': not overl, 'overlaps': overl[:5]}
    st = 'violated' if viol else ('inconclusive' if inconcl else 'holds')
    return {'status': st, 'queries': queries, 'solver_s': round(solver_s, 3), 'distinct_nontrivial': queries, 'samples': samples,
            'violations': viol[:5], 'counts': counts, 'detail': {'disjointness': detail, 'inconclusive': inconcl[:5]}}


def disjoint_grammars():
    """Grammars of CTX_GRAMMARS whose regexp terminals are pairwise disjoint - decided by z3 at plan time (cheap)."""
    r = run_lemma({'kind': 'disj'})
    return [g for g in CTX_GRAMMARS if r['detail']['disjointness'].get(g, {}).get('regexp_terminals_pairwise_disjoint')]


def plan(tier, seed):
    quick = tier == 'quick'
    slices = []
    Ks = {'kwid': 12, 'prio': 5, 'prio2': 9, 'eqw': 6, 'ci': 10, 'ign_inline': 6, 'xflag': 6, 'ciflag': 8}
    budget = 60 if quick else 1200
    for g, k in Ks.items():
        for by in (False, True):
            Lg = (3 if k > 8 else 4) if quick else (4 if k > 6 else 5)
            if by and quick and k > 8:
                Lg = 2
            npaths = sum(k ** n for n in range(Lg + 1))
            pins = [None] if npaths * 0.06 <= budget else list(range(k))
            for pin in pins:
                est = (npaths if pin is None else npaths / k) * 0.06
                slices.append({'id': 'lex:%s:%s:L%d%s' % (g, 'bytes' if by else 'str', Lg, '' if pin is None else ':pin%d' % pin), 'func': 'lex',
                               'params': {'kind': 'lex', 'g': g, 'bytes': by, 'L': Lg, 'pin': pin}, 'timeout': int(est * 3 + 40),
                               'twin': pin in (None, k - 1), 'bound': {'chars': Lg, 'classes': k}})
    slices.append({'id': 'many:130-terminals:L%d' % (3 if quick else 4), 'func': 'lex', 'params': {'kind': 'many', 'L': 3 if quick else 4},
                   'timeout': 300 if quick else 1500, 'bound': {'lexemes': 3 if quick else 4, 'terminals': MANY_N + 1}})
    try:
        ctx_ok = disjoint_grammars()
    except Exception:
        ctx_ok = []
    TK = {'lines': 8, 'kw': 14, 'letx': 9, 'nlvia': 8}
    for g in ctx_ok:
        k = TK[g]
        Lg = 3 if quick else 4
        if k > 9 and quick:
            Lg = 2
        npaths = sum(k ** n for n in range(Lg + 1))
        pins = [None] if npaths * 0.1 <= budget else list(range(k))
        for pin in pins:
            est = (npaths if pin is None else npaths / k) * 0.1
            slices.append({'id': 'ctx:%s:L%d%s' % (g, Lg, '' if pin is None else ':pin%d' % pin), 'func': 'ctx',
                           'params': {'kind': 'ctx', 'g': g, 'L': Lg, 'pin': pin}, 'timeout': int(est * 3 + 40), 'twin': pin in (None, k - 1),
                           'bound': {'chars': Lg, 'classes': k}})
    for g in ('kw', 'letx', 'lines'):
        k = TK[g]
        Lg = (2 if k > 9 else 3) if quick else (3 if k > 9 else 4)
        if g == 'kw':
            Lg += 1     # "if if" style inputs need 5 characters: use token-friendly length where affordable
        npaths = sum(k ** n for n in range(Lg + 1))
        pins = [None] if npaths * 0.12 <= budget else list(range(k))
        for pin in pins:
            est = (npaths if pin is None else npaths / k) * 0.12
            slices.append({'id': 'ctxref:%s:L%d%s' % (g, Lg, '' if pin is None else ':pin%d' % pin), 'func': 'ctxref',
                           'params': {'kind': 'ctxref', 'g': g, 'L': Lg, 'pin': pin}, 'timeout': int(est * 3 + 40), 'twin': pin in (None, k - 1),
                           'bound': {'chars': Lg, 'classes': k}})
    for g, nlex in (('kw', 7), ('letx', 6)):
        Lx = 4 if quick else 5
        slices.append({'id': 'ctxref:%s:lexemes:L%d' % (g, Lx), 'func': 'ctxref', 'params': {'kind': 'ctxref', 'g': g, 'L': Lx, 'domain': 'lexemes'},
                       'timeout': 400 if quick else 2400, 'bound': {'lexemes': Lx, 'kinds': nlex}})
    lemmas = [{'name': 'L-kw:unless-table', 'kind': 'kw', 'timeout': 600}, {'name': 'L-disj:regexp-terminals', 'kind': 'disj', 'timeout': 600}]
    meta = {
        'rule': 'lex/ctx: one path per class-string; many: one path per lexeme sequence; lemmas: one z3 query per terminal pair',
        'technique': 'CrossHair symbolic execution of the real lexers over the regex-indistinguishable alphabet partition + z3 regex-theory lemmas on real terminals',
        'functions_encoded': ['lark.lexer.BasicLexer.__init__ (sort)', 'BasicLexer._build_scanner', '_create_unless', 'UnlessCallback', 'Scanner._build_mres/match',
                              'BasicLexer.next_token/lex', 'ContextualLexer.__init__/lex', 'LALR parse'],
        'bounds': {'chars': 'per grammar, see conditions', 'terminals_many': MANY_N + 1, 'ctx_grammars_with_disjoint_regexps': ctx_ok},
        'outside_bounds': ['longer inputs', 'terminal sets outside the corpus', 'string terminals whose literal is outside the language of a regexp that nevertheless matches them case-insensitively'],
        'stubs_and_assumes': ['the reference lexer takes terminal patterns and priorities from the DSL grammar as written and computes widths itself (sre_parse on the regexp with its flags); '
                              'the built parser is consulted only for the names it gave to anonymous terminals'],
    }
    return {'slices': slices, 'lemmas': lemmas, 'meta': meta}
