"""C02 - LALR(1): conflicts reported, accepted language sound and (conflict-free) exact, next-token sets.

 run  (CrossHair): symbolic token-kind sequence fed token by token through the real InteractiveParser / ParserState.feed_token; after
      every accepted prefix choices() restricted to terminals must equal the reference LALR(1) automaton's action set; acceptance
      and the error index must equal the reference automaton's (shift-preferring); accepted => member; conflict-free => exact.
 tab  (CrossHair): a grammar template (symbolic alternative indices) built from Rule objects and run through the real
      LALR_Analyzer; GrammarError <=> unresolved reduce/reduce conflict in the reference; otherwise tables equal state by state.
 prio (CrossHair): reduce/reduce grammars with *unbounded symbolic integer* rule priorities through compute_lalr1_states.
"""
from typing import List

from vfw import hs, corpus
from vfw.refsem import cfg, lalrref
from vfw.refsem.gdsl import Grammar, Rule as GRule, T, N

PROPERTY = 'C02'
P = hs.params()

POOL = [[]] + [[x] for x in ('n', 'T1', 'T2')] + [[x, y] for x in ('n', 'T1', 'T2') for y in ('n', 'T1', 'T2')]
NP = len(POOL)


def _is_bnf(g):
    return not any(not isinstance(i, (T, N, corpus.L)) for r in g.rules for a in r.alts for i in a.items)


RUN_GRAMMARS = [k for k, v in corpus.TOK.items() if _is_bnf(v['g'])]

if P and P.get('kind') == 'run':
    from lark import Lark, Token
    from lark.exceptions import UnexpectedInput, UnexpectedToken, GrammarError
    ENTRY = corpus.TOK[P['g']]
    GRAMMAR = ENTRY['g']
    NAMES = ENTRY['names']
    K = len(NAMES)
    L = P['L']
    BNF = cfg.BNF(GRAMMAR)
    ORACLE = lalrref.LALR(BNF)
    LEXMODE = P.get('lexer', 'list')
    try:
        LARK = Lark(GRAMMAR.render(), parser='lalr', lexer=hs.make_list_lexer(NAMES))
        BUILD_ERR = None
    except GrammarError as e:
        LARK = None
        BUILD_ERR = e

if P and P.get('kind') in ('tab', 'prio', 'chain', 'tabcorpus'):
    from lark.grammar import Rule, NonTerminal, Terminal, RuleOptions
    from lark.common import ParserConf
    from lark.parsers.lalr_analysis import LALR_Analyzer, Shift, Reduce
    from lark.exceptions import GrammarError
    QUICK_POOL = P.get('pool', NP)
    PIN_A = P.get('pin_a', 0)


def _terms_only(keys):
    return {k for k in keys if k == '$END' or k in BNF.terminals}


def _run_body(rec, ix):
    if LARK is None:
        with hs.untraced():
            rec['key'] = 'construction'
            rec['nontrivial'] = True
            if not ORACLE.rr_conflicts:
                return hs.fail(rec, 'GrammarError without a reduce/reduce conflict in the reference automaton', err=str(BUILD_ERR)[:200])
        return True
    if ORACLE.rr_conflicts:
        return hs.fail(rec, 'reference automaton has an unresolved reduce/reduce conflict but construction succeeded')
    ip = LARK.parse_interactive()
    kinds = []
    seen_choices = [set(ip.choices())]
    seen_accepts = [set(ip.accepts())]
    ok = True
    err_at = None
    with hs.watchdog():
        try:
            k = 0
            while k < len(ix):
                name = NAMES[hs.sel(ix[k], K)]
                kinds.append(name)
                err_at = k
                ip.feed_token(Token(name, name.lower()))
                seen_choices.append(set(ip.choices()))
                seen_accepts.append(set(ip.accepts()))
                k += 1
            err_at = len(kinds)
            ip.feed_eof()
        except UnexpectedToken:
            ok = False
    with hs.untraced():
        rec['key'] = [kinds, ok]
        rec['nontrivial'] = len(kinds) > 0
        rec['count'] = {'accepted': int(ok), 'prefix_states_checked': len(seen_choices)}
        acc_o, err_o, ch_o = ORACLE.run(kinds)
        if ok != acc_o:
            return hs.fail(rec, 'acceptance differs from the reference LALR(1) automaton', kinds=kinds, lark=ok, reference=acc_o)
        if not ok and err_o != err_at:
            return hs.fail(rec, 'error raised at token %s, reference automaton stops at %s' % (err_at, err_o), kinds=kinds)
        for n, (got, want) in enumerate(zip(seen_choices, ch_o)):
            if _terms_only(got) != want:
                return hs.fail(rec, 'next-token set after prefix of length %d differs from the LALR(1) automaton' % n, kinds=kinds,
                               got=sorted(_terms_only(got)), want=sorted(want))
        # accepts(): exactly the token types the automaton can consume next (a table entry may be a merged LALR look-ahead whose
        # reductions run into an error: it is listed by choices() but cannot be consumed)
        for n, got in enumerate(seen_accepts):
            prefix = kinds[:n]
            want = set()
            for t in sorted(BNF.terminals) + ['$END']:
                if t == '$END':
                    if ORACLE.run(prefix)[0]:
                        want.add(t)
                else:
                    acc_t, err_t, _ = ORACLE.run(prefix + [t])
                    if acc_t or err_t is None or err_t > n:
                        want.add(t)
            if got != want:
                return hs.fail(rec, 'accepts() after prefix of length %d is not the set of token types the LALR(1) automaton can consume' % n, kinds=kinds,
                               got=sorted(got), want=sorted(want))
        member = cfg.member(BNF, cfg.TokenInput(kinds))
        if ok and not member:
            return hs.fail(rec, 'accepted a non-sentence', kinds=kinds)
        if not ORACLE.sr_conflicts and member and not ok:
            return hs.fail(rec, 'conflict-free grammar: rejected a sentence', kinds=kinds)
    return True


def run(ix: List[int]) -> bool:
    """
    pre: len(ix) <= L
    post: _
    """
    return hs.run_path(_run_body, (ix,), corner=lambda ix: len(ix) == L and hs.sel(ix[L - 1], K) == K - 1)


# ---------------------------------------------------------------------------------------------------------------------

def _template_grammar(a, b, c, d, pa=None, pb=None, pc=None, pd=None):
    def alt(i):
        return [N('n2') if x == 'n' else T(x) for x in POOL[i]]
    return Grammar([GRule('start', [alt(a), alt(b)]), GRule('n2', [alt(c), alt(d)])], declare=['T1', 'T2'])


def _lark_rules(a, b, c, d, prios=(None, None, None, None)):
    def sym(x):
        return NonTerminal('n2') if x == 'n' else Terminal(x)
    rules = []
    for order, (i, p) in enumerate(((a, prios[0]), (b, prios[1]))):
        rules.append(Rule(NonTerminal('start'), [sym(x) for x in POOL[i]], order, None, RuleOptions(priority=p)))
    for order, (i, p) in enumerate(((c, prios[2]), (d, prios[3]))):
        rules.append(Rule(NonTerminal('n2'), [sym(x) for x in POOL[i]], order, None, RuleOptions(priority=p)))
    return rules


def _lark_table(rules):
    conf = ParserConf(rules, {}, ['start'])
    an = LALR_Analyzer(conf, debug=True)
    an.compute_lalr()
    pt = an.parse_table
    out = {}

    def sig(state):
        return frozenset((rp.rule.origin.name, tuple(s.name for s in rp.rule.expansion), rp.index) for rp in state)
    for state, row in pt.states.items():
        r = {}
        for name, (action, arg) in row.items():
            if action is Shift:
                r[name] = ('shift', sig(arg))
            else:
                r[name] = ('reduce', (arg.origin.name, tuple(s.name for s in arg.expansion)))
        out[sig(state)] = r
    return out


def _norm_oracle_table(o):
    """Reference table in lark's conventions: the LALR root rule is $root_start -> start (the end marker is only a lookahead)."""
    def item(lhs, rhs, dot):
        return ('$root_start', ('start',), dot) if lhs == '$root' else (lhs, rhs, dot)
    out = {}
    for s, row in o.table().items():
        r = {}
        for name, a in row.items():
            if a[0] == 'shift':
                r[name] = ('shift', frozenset(item(*x) for x in a[1]))
            elif a[0] == 'accept':
                continue        # lark's end state has no $END entry: the parser loop recognises the end state itself
            else:
                r[name] = a
        out[frozenset(item(*x) for x in s)] = r
    return out


def _corpus_rules(g):
    """lark Rule objects for a plain-BNF DSL grammar (terminals as declared names, literals by their anonymous names)."""
    rules = []
    bnf = cfg.BNF(g)
    for r in g.rules:
        for order, a in enumerate(bnf.rules[r.name].alts):
            rules.append(Rule(NonTerminal(r.name), [Terminal(s[1]) if s[0] == 't' else NonTerminal(s[1]) for s in a.syms], order, None,
                              RuleOptions(priority=r.priority)))
    return rules, bnf


def _tabcorpus_body(rec, gi):
    name = RUN_GRAMMARS[hs.sel(gi, len(RUN_GRAMMARS))]
    rules, bnf = _corpus_rules(corpus.TOK[name]['g'])
    err = None
    table = None
    with hs.watchdog():
        try:
            table = _lark_table(rules)
        except GrammarError as e:
            err = e
    with hs.untraced():
        rec['key'] = name
        rec['nontrivial'] = True
        if bnf.productive() != set(bnf.rules) or bnf.is_cyclic():
            # cyclic grammars put a reduce on the end marker into the end state, which lark's parser loop never consults: the entry is a
            # matter of convention (behaviour is compared by the run harness)
            return True
        o = lalrref.LALR(bnf)
        rec['count'] = {'grammars': 1, 'states': len(o.states)}
        if bool(o.rr_conflicts) != (err is not None):
            return hs.fail(rec, 'GrammarError %s but reference reduce/reduce conflicts: %d' % ('raised' if err else 'not raised', len(o.rr_conflicts)), grammar=name)
        if err is None:
            want = _norm_oracle_table(o)
            if table != want:
                diff = [str(x) for x in set(table) ^ set(want)][:2] or [str((x, table[x], want[x])) for x in table if table[x] != want[x]][:1]
                return hs.fail(rec, 'LALR(1) table of corpus grammar %s differs from the reference' % name, diff=diff)
    return True


def tabcorpus(gi: int) -> bool:
    """
    pre: True
    post: _
    """
    return hs.run_path(_tabcorpus_body, (gi,), corner=lambda gi: hs.sel(gi, len(RUN_GRAMMARS)) == len(RUN_GRAMMARS) - 1)


def _tab_body(rec, a, b, c, d):
    a = hs.pick(a, 0, QUICK_POOL - 1)
    b = hs.pick(b, a + 1, QUICK_POOL - 1) if a + 1 <= QUICK_POOL - 1 else None
    c = hs.pick(c, 0, QUICK_POOL - 1)
    d = hs.pick(d, c + 1, QUICK_POOL - 1)
    rules = _lark_rules(a, b, c, d)
    err = None
    table = None
    with hs.watchdog():
        try:
            table = _lark_table(rules)
        except GrammarError as e:
            err = e
    with hs.untraced():
        rec['key'] = [a, b, c, d]
        rec['nontrivial'] = True
        bnf = cfg.BNF(_template_grammar(a, b, c, d))
        reach = {'start'} | ({'n2'} if any('n' in POOL[i] for i in (a, b)) else set())
        if bnf.productive() != {'start', 'n2'} or reach != {'start', 'n2'}:
            # useless (unproductive / unreachable) non-terminals: lookahead sets of items that can never be completed are a matter
            # of convention and unobservable; the template only claims reduced grammars
            rec['count'] = {'grammars_skipped_useless_symbols': 1}
            return True
        o = lalrref.LALR(bnf)
        rec['count'] = {'grammars': 1, 'rr_conflict': int(bool(o.rr_conflicts)), 'sr_conflict': int(bool(o.sr_conflicts)), 'states': len(o.states)}
        if bool(o.rr_conflicts) != (err is not None):
            return hs.fail(rec, 'GrammarError %s but reference reduce/reduce conflicts: %d' % ('raised' if err else 'not raised', len(o.rr_conflicts)),
                           grammar=_template_grammar(a, b, c, d).render())
        if err is None:
            want = _norm_oracle_table(o)
            if table != want:
                diff = [str(s) for s in set(table) ^ set(want)][:2] or [str((s, table[s], want[s])) for s in table if table[s] != want[s]][:1]
                return hs.fail(rec, 'LALR(1) table differs from the reference (canonical LR(1) merged by core)',
                               grammar=_template_grammar(a, b, c, d).render(), diff=diff)
    return True


def tab(a: int, b: int, c: int, d: int) -> bool:
    """
    pre: 0 <= a < b < QUICK_POOL and 0 <= c < d < QUICK_POOL and a == PIN_A
    post: _
    """
    return hs.run_path(_tab_body, (a, b, c, d), corner=lambda a, b, c, d: c == QUICK_POOL - 2)


def _prio_body(rec, which, p1, p2):
    # two grammars with a reduce/reduce pair (e: X ; f: X) in the same lookahead; priorities are unbounded symbolic ints
    which = hs.pick(which, 0, 1)
    rules = [
        Rule(NonTerminal('start'), [NonTerminal('e'), Terminal('A')], 0),
        Rule(NonTerminal('start'), [NonTerminal('f'), Terminal('A' if which == 0 else 'B')], 1),
        Rule(NonTerminal('e'), [Terminal('X')], 0, None, RuleOptions(priority=p1)),
        Rule(NonTerminal('f'), [Terminal('X')], 0, None, RuleOptions(priority=p2)),
    ]
    err = None
    table = None
    try:
        table = _lark_table(rules)
    except GrammarError as e:
        err = e
    rec['key'] = [which]
    rec['nontrivial'] = True
    if which == 1:
        # different lookaheads: never a conflict
        if err is not None:
            return hs.fail(rec, 'GrammarError although the two rules never compete for a lookahead')
        return True
    if p1 == p2:
        if err is None:
            return hs.fail(rec, 'equal priorities: reduce/reduce conflict not reported')
        return True
    if err is not None:
        return hs.fail(rec, 'strict priority winner exists but GrammarError raised')
    winner = 'e' if p1 > p2 else 'f'
    for s, row in table.items():
        if ('e', ('X',), 1) in s:
            if row.get('A') != ('reduce', (winner, ('X',))):
                return hs.fail(rec, 'conflict not resolved to the higher-priority rule', row=str(row))
    return True


def _prio3_body(rec, p1, p2, p3):
    # three rules competing for one lookahead: GrammarError exactly when the highest priority is not unique
    ps = [p1, p2, p3]
    names = ['e', 'f', 'h']
    rules = [Rule(NonTerminal('start'), [NonTerminal(n), Terminal('A')], k) for k, n in enumerate(names)]
    rules += [Rule(NonTerminal(n), [Terminal('X')], 0, None, RuleOptions(priority=ps[k])) for k, n in enumerate(names)]
    err = None
    table = None
    try:
        table = _lark_table(rules)
    except GrammarError as e:
        err = e
    rec['key'] = ['prio3']
    rec['nontrivial'] = True
    top = p1
    if p2 > top:
        top = p2
    if p3 > top:
        top = p3
    nwin = (1 if p1 == top else 0) + (1 if p2 == top else 0) + (1 if p3 == top else 0)
    if nwin >= 2:
        if err is None:
            return hs.fail(rec, 'three competing rules, highest priority tied: reduce/reduce conflict not reported')
        return True
    if err is not None:
        return hs.fail(rec, 'strict priority winner exists among three rules but GrammarError raised')
    winner = 'e' if p1 == top else ('f' if p2 == top else 'h')
    for s, row in table.items():
        if ('e', ('X',), 1) in s:
            if row.get('A') != ('reduce', (winner, ('X',))):
                return hs.fail(rec, 'conflict among three rules not resolved to the highest-priority rule', row=str(row))
    return True


def prio3(p1: int, p2: int, p3: int) -> bool:
    """
    pre: True
    post: _
    """
    return hs.run_path(_prio3_body, (p1, p2, p3), corner=lambda p1, p2, p3: p1 > p2 and p2 > p3)


# second table template: nullable chains over four non-terminals, in both rule orders (FIRST/NULLABLE fixpoints, reads/includes)
S_POOL = [[['T1', 'A', 'T2']], [['A', 'T1']], [['A', 'B', 'T1']], [['T1', 'A'], ['T2']]]
A_POOL = [[['B', 'B']], [['B']], [['B', 'T2'], ['B']], [['C', 'B']]]
B_POOL = [[['C']], [['C', 'C']], [[]], [['C'], ['T2']]]
C_POOL = [[[]], [['T1'], []], [['T1']]]
NT_NAMES = {'S': 'start', 'A': 'na', 'B': 'nb', 'C': 'nc'}


def _chain_rules(si, ai, bi, ci, order):
    bodies = {'S': S_POOL[si], 'A': A_POOL[ai], 'B': B_POOL[bi], 'C': C_POOL[ci]}
    seq = ['S', 'A', 'B', 'C'] if order == 0 else ['C', 'B', 'A', 'S']

    def sym(x):
        return NonTerminal(NT_NAMES[x]) if x in NT_NAMES else Terminal(x)
    rules = []
    for nt in seq:
        for k, alt in enumerate(bodies[nt]):
            rules.append(Rule(NonTerminal(NT_NAMES[nt]), [sym(x) for x in alt], k))
    g = Grammar([GRule(NT_NAMES[nt], [[N(NT_NAMES[x]) if x in NT_NAMES else T(x) for x in alt] for alt in bodies[nt]]) for nt in seq],
                declare=['T1', 'T2'])
    return rules, g


def _chain_grammar(si, ai, bi, ci, order):
    bodies = {'S': S_POOL[si], 'A': A_POOL[ai], 'B': B_POOL[bi], 'C': C_POOL[ci]}
    seq = ['S', 'A', 'B', 'C'] if order == 0 else ['C', 'B', 'A', 'S']
    return Grammar([GRule(NT_NAMES[nt], [[N(NT_NAMES[x]) if x in NT_NAMES else T(x) for x in alt] for alt in bodies[nt]]) for nt in seq],
                   declare=['T1', 'T2'])


def _chain_body(rec, si, ai, bi, ci, order):
    si = hs.pick(si, 0, len(S_POOL) - 1)
    ai = hs.pick(ai, 0, len(A_POOL) - 1)
    bi = hs.pick(bi, 0, len(B_POOL) - 1)
    ci = hs.pick(ci, 0, len(C_POOL) - 1)
    order = hs.pick(order, 0, 1)
    rules, g = _chain_rules(si, ai, bi, ci, order)
    err = None
    table = None
    with hs.watchdog():
        try:
            table = _lark_table(rules)
        except GrammarError as e:
            err = e
    with hs.untraced():
        rec['key'] = [si, ai, bi, ci, order]
        rec['nontrivial'] = True
        bnf = cfg.BNF(g)
        reach, todo = set(), ['start']
        while todo:
            x = todo.pop()
            if x in reach:
                continue
            reach.add(x)
            todo += [sy[1] for a in bnf.rules[x].alts for sy in a.syms if sy[0] == 'n']
        if bnf.productive() != set(bnf.rules) or reach != set(bnf.rules):
            rec['count'] = {'grammars_skipped_useless_symbols': 1}
            return True
        o = lalrref.LALR(bnf)
        rec['count'] = {'grammars': 1, 'rr_conflict': int(bool(o.rr_conflicts)), 'sr_conflict': int(bool(o.sr_conflicts)), 'states': len(o.states)}
        if bool(o.rr_conflicts) != (err is not None):
            return hs.fail(rec, 'GrammarError %s but reference reduce/reduce conflicts: %d' % ('raised' if err else 'not raised', len(o.rr_conflicts)), grammar=g.render())
        if err is None:
            want = _norm_oracle_table(o)
            if table != want:
                diff = [str(x) for x in set(table) ^ set(want)][:2] or [str((x, table[x], want[x])) for x in table if table[x] != want[x]][:1]
                return hs.fail(rec, 'LALR(1) table differs from the reference (canonical LR(1) merged by core)', grammar=g.render(), diff=diff)
    return True


def chain(si: int, ai: int, bi: int, ci: int, order: int) -> bool:
    """
    pre: 0 <= si < len(S_POOL) and 0 <= ai < len(A_POOL) and 0 <= bi < len(B_POOL) and 0 <= ci < len(C_POOL) and 0 <= order <= 1 and si == PIN_A
    post: _
    """
    return hs.run_path(_chain_body, (si, ai, bi, ci, order), corner=lambda si, ai, bi, ci, order: ci == len(C_POOL) - 1 and order == 1)


def prio(which: int, p1: int, p2: int) -> bool:
    """
    pre: 0 <= which <= 1
    post: _
    """
    return hs.run_path(_prio_body, (which, p1, p2), corner=lambda w, p1, p2: w == 0 and p1 > p2)


# ---------------------------------------------------------------------------------------------------------------------
# priorities written in grammar text, through Lark(): two rules in a reduce/reduce conflict on the same text
PL_PRIOS = [None, 1, 2, -1]
PL_BODIES = ['X', 'X [Y]', 'X Y?', '[Y] X', 'X [Y] [Y Y]']
PL_MODES = ['normal', 'invert', None, 'auto']

if P and P.get('kind') == 'prioload':
    from lark import Lark
    from lark.exceptions import GrammarError, UnexpectedInput
    PL_LEX = hs.make_list_lexer(['X', 'Y'])


def _prioload_body(rec, pa, pb, body, mode, mp, order):
    pa = PL_PRIOS[hs.sel(pa, len(PL_PRIOS))]
    pb = PL_PRIOS[hs.sel(pb, len(PL_PRIOS))]
    body = PL_BODIES[hs.sel(body, len(PL_BODIES))]
    mode = PL_MODES[hs.sel(mode, len(PL_MODES))]
    mp = bool(mp)
    order = hs.sel(order, 2)
    with hs.untraced():
        ra = 'a%s: %s' % ('' if pa is None else '.%d' % pa, body)
        rb = 'b%s: X' % ('' if pb is None else '.%d' % pb)
        g = 'start: a | b\n%s\n%%declare X Y\n' % '\n'.join([ra, rb] if order == 0 else [rb, ra])
        rec['key'] = [pa, pb, body, mode, mp, order]
        rec['nontrivial'] = True
        rec['count'] = {'grammars': 1}
        # reference: the input X reduces by a's alternative without Y or by b; the documented resolution picks the strictly higher
        # effective priority (absent = 0, negated under 'invert', all equal under None) and fails without a strict winner
        ea, eb = (pa or 0), (pb or 0)
        if mode == 'invert':
            ea, eb = -ea, -eb
        elif mode is None:
            ea = eb = 0
        want = 'a' if ea > eb else ('b' if eb > ea else 'GrammarError')
        try:
            lk = Lark(g, parser='lalr', lexer=PL_LEX, priority=mode, maybe_placeholders=mp)
        except GrammarError as e:
            got = 'GrammarError' if 'Reduce/Reduce' in str(e) else 'other GrammarError: %s' % str(e)[:80]
        else:
            try:
                got = str(lk.parse([0]).children[0].data)
            except UnexpectedInput as e:
                got = 'rejects X'
        if got != want:
            return hs.fail(rec, 'reduce/reduce resolution by priorities written in the grammar: got %s, documented: %s' % (got, want), grammar=g, priority=mode,
                           maybe_placeholders=mp)
    return True


def prioload(pa: int, pb: int, body: int, mode: int, mp: bool, order: int) -> bool:
    """
    post: _
    """
    return hs.run_path(_prioload_body, (pa, pb, body, mode, mp, order), corner=lambda pa, pb, body, mode, mp, order: hs.sel(pa, 4) == 3 and hs.sel(pb, 4) == 3 and mp)


def plan(tier, seed):
    quick = tier == 'quick'
    L = 5 if quick else 8
    slices = []
    for g in RUN_GRAMMARS:
        Kg = len(corpus.TOK[g]['names'])
        Lg = L if Kg <= 3 else L - 1
        slices.append({'id': 'run:%s:L%d' % (g, Lg), 'func': 'run', 'params': {'kind': 'run', 'g': g, 'L': Lg},
                       'timeout': 120 if quick else 1200, 'bound': {'tokens': Lg}})
    slices.append({'id': 'prioload:text-priorities', 'func': 'prioload', 'mode': 'realised', 'params': {'kind': 'prioload'}, 'timeout': 600,
                   'bound': {'grammars': len(PL_PRIOS) ** 2 * len(PL_BODIES) * len(PL_MODES) * 2 * 2}})
    pool = 7 if quick else NP
    for pa in range(pool - 1):
        ng = (pool - 1 - pa) * (pool * (pool - 1) // 2)
        slices.append({'id': 'tab:pool%d:a%d' % (pool, pa), 'func': 'tab', 'params': {'kind': 'tab', 'pool': pool, 'pin_a': pa},
                       'timeout': int(ng * 0.8 + 40), 'bound': {'grammars': ng}, 'twin': pa in (0, pool - 2)})
    slices.append({'id': 'tabcorpus', 'func': 'tabcorpus', 'params': {'kind': 'tabcorpus'}, 'timeout': 300, 'bound': {'grammars': len(RUN_GRAMMARS)}})
    slices.append({'id': 'prio:symbolic', 'func': 'prio', 'params': {'kind': 'prio'}, 'timeout': 60,
                   'bound': {'priorities': 'all of Z^2'}})
    slices.append({'id': 'prio3:symbolic', 'func': 'prio3', 'params': {'kind': 'prio'}, 'timeout': 120,
                   'bound': {'priorities': 'all of Z^3', 'competing_rules': 3}})
    for si in range(len(S_POOL)):
        slices.append({'id': 'chain:s%d' % si, 'func': 'chain', 'params': {'kind': 'chain', 'pin_a': si}, 'timeout': 240 if quick else 600,
                       'bound': {'grammars': len(A_POOL) * len(B_POOL) * len(C_POOL) * 2}, 'twin': si == 0})
    meta = {
        'rule': 'run: one path per viable token prefix + one rejecting extension (non-trivial = non-empty); tab: one path per template grammar; '
                'prio: one path per order relation between the two symbolic priorities',
        'technique': 'CrossHair symbolic execution of real LALR construction and parser loop vs. a canonical-LR(1)-merged reference automaton',
        'functions_encoded': ['lark.parsers.lalr_analysis.LALR_Analyzer.compute_lr0_states/compute_reads_relations/compute_includes_lookback/'
                              'compute_lookaheads/compute_lalr1_states', 'lark.parsers.lalr_analysis.digraph/traverse',
                              'lark.parsers.grammar_analysis.GrammarAnalyzer', 'lark.parsers.lalr_parser_state.ParserState.feed_token',
                              'lark.parsers.lalr_interactive_parser.InteractiveParser.feed_token/choices/feed_eof'],
        'bounds': {'run_tokens': L, 'template_grammars': (pool * (pool - 1) // 2) ** 2, 'run_grammars': len(RUN_GRAMMARS)},
        'outside_bounds': ['grammars outside the corpus/template', 'longer inputs', 'EBNF operators (expansion-dependent LALR-ness; covered behaviourally by C03/C09)'],
        'stubs_and_assumes': ['tokens come from the documented custom-lexer interface / Token objects fed to the interactive parser'],
    }
    return {'slices': slices, 'meta': meta}
