"""C19 - Reconstructor output re-parses to the same tree.

Grammars in the supported class (maybe_placeholders=False, unambiguous, every filtered terminal a string literal, every alternative
keeping an unfiltered symbol other than the rule itself, whitespace ignored). Symbolic lexeme sequence -> text -> parse -> reconstruct ->
parse: the text must be accepted and give an equal tree. Real code: TreeMatcher._build_recons_rules / match_tree (Earley over tree
children), WriteTokensTransformer, Reconstructor.reconstruct (space insertion by is_id_continue)."""
from typing import List

from vfw import hs

PROPERTY = 'C19'
P = hs.params()

GRAMMARS = {
    'expr': ('''
start: stmt+
stmt: NAME "=" expr ";" | "print" expr ";" -> pr
?expr: term | expr "+" term -> add | expr "-" term -> sub
?term: NAME | NUM | "(" expr ")" | "-" term -> neg
NAME: /[a-z]+/
NUM: /[0-9]+/
%ignore " "
''', ['x', 'print', '=', '7', ';', '+', '-', '(', ')', 'yz']),
    'items': ('''
start: (item ",")* item
item: "key" NAME -> k | NAME ":" _val | flag NAME
_val: NUM | "[" start "]" | NAME NAME
!flag: "+" | "-"
NAME: /[a-z]+/
NUM: /[0-9]+/
%ignore " "
''', ['a', 'key', ':', '7', ',', '[', ']', '+', '-', 'b']),
    # a ?rule's multi-child alternative next to an inlined rule with the same children; tokens that contain non-identifier characters
    'show': ('''
start: (assign | show | let)+
assign: NAME "=" sum ";"
show: "show" _pair ";" | "show" sum ";"
let: "let" VAR "be" DIM+ ";"
_pair: NAME "," NAME
?sum: NAME | NAME "+" NAME
NAME: /[a-z]+/
VAR: /\\$[a-z]+/
DIM: /[0-9]+\\.[0-9]+[a-z]+/
%ignore " "
''', ['show', '=', 'a', ',', '+', ';', 'let', '$x', 'be', '1.5em']),
    # rule names that coincide with attribute and method names of lark's own visitor/transformer classes: a rule's name is free
    'names': ('''
start: (tokens | transform | term_subs | visit)+
tokens: "t" NAME ";"
transform: "x" NAME ";"
term_subs: "s" NAME NAME ";"
visit: "v" data ";"
data: NAME "," NAME
NAME: /[a-z][a-z]+/
%ignore " "
''', ['t', 'x', 's', 'v', 'ab', ';', ',', 'cd']),
    # adjacent tokens without punctuation between them (digits at the boundary); a string literal handed to an inlined ! template as
    # an argument (kept in the tree although the literal was written in a rule that filters it)
    'adj': ('''
start: (vec | lst)+
vec: "vec" NAME NUM+ ";"
lst: "[" _sep{item, ","} "]" ";"
!_sep{x, s}: x (s x)*
item: NAME | NUM
NAME: /[a-z]+/
NUM: /[0-9]+/
%ignore " "
''', ['vec', 'v', '1', '22', ';', '[', ']', ',']),
    # two alternatives with the same alias and the same kept symbols (they differ in filtered tokens only), another one between them
    'dup': ('''
start: value+ ";"
value: NUM -> number | NAME -> var | "+" NUM -> number | "(" NAME ")" -> var
NAME: /[a-z]+/
NUM: /[0-9]+/
%ignore " "
''', ['7', 'x', '+', ';', '(', ')']),
    # a filtered terminal without a pattern (%declare, produced by a post-lexer), covered by term_subs
    'decl': ('''
start: item (_SEP item)* ";"
item: NAME | "<" start ">"
NAME: /[a-z]+/
COMMA: ","
%declare _SEP
%ignore " "
''', ['a', ',', ';', 'b', '<', '>']),
    'json': ('''
?start: value
?value: dict | list | STR | NUM | "true" -> t | "null" -> n
list: "[" [value ("," value)*] "]"
dict: "{" [pair ("," pair)*] "}"
pair: STR ":" value
STR: /"[a-z]*"/
NUM: /[0-9]+/
%ignore " "
''', ['"a"', '7', '[', ']', '{', '}', ',', ':', 'true', 'null']),
}

if P:
    from lark import Lark, Tree
    from lark.reconstruct import Reconstructor
    from lark.exceptions import UnexpectedInput
    SRC, LEXEMES = GRAMMARS[P['g']]
    PARSER = P.get('parser', 'lalr')
    from lark.lexer import Lexer, Token

    class CommaToSep:
        always_accept = ('COMMA',)

        def process(self, stream):
            for t in stream:
                yield Token.new_borrow_pos('_SEP', t.value, t) if t.type == 'COMMA' else t
    LOPTS = {'postlex': CommaToSep()} if P['g'] == 'decl' else {}
    ROPTS = {'term_subs': {'_SEP': lambda sym: ','}} if P['g'] == 'decl' else {}
    LARK = Lark(SRC, parser=PARSER, maybe_placeholders=False, **LOPTS)
    RECON = Reconstructor(LARK, **ROPTS)
    _BL = hs.basic_lexer_of(Lark(SRC, parser='lalr', lexer='basic', maybe_placeholders=False, **LOPTS))
    TYPES = [next(iter(hs.lex_tokens(_BL, lx))).type for lx in LEXEMES]

    class LazyLexemes(Lexer):
        """Viability filter: lexeme kinds are realised when the parser pulls them, so rejected prefixes prune their subtree."""
        __future_interface__ = 2

        def __init__(self, conf):
            pass

        def lex(self, lexer_state, parser_state):
            ix = lexer_state.text
            k = 0
            while k < len(ix):
                j = hs.sel(ix[k], len(LEXEMES))
                hs.CUR['kinds'].append(j)
                yield Token(TYPES[j], LEXEMES[j], k)
                k += 1
    FILTER = Lark(SRC, parser='lalr', lexer=LazyLexemes, maybe_placeholders=False, **LOPTS)
    L = P['L']
    K = len(LEXEMES)
    PIN = P.get('pin')
    REAL = P.get('mode') == 'realised'
    SEEN = []


def _body(rec, cs):
    try:
        FILTER.parse(cs)
    except UnexpectedInput:
        rec['key'] = [list(hs.CUR['kinds']), False]
        rec['nontrivial'] = False
        return True
    idx = list(hs.CUR['kinds'])
    rec['replay_args'] = [idx]
    text = ' '.join(LEXEMES[i] for i in idx)
    try:
        tree = LARK.parse(text)
    except UnexpectedInput:
        rec['key'] = [text, False]
        rec['nontrivial'] = False
        return True
    if not isinstance(tree, Tree):
        return True
    if REAL:
        with hs.untraced():
            out = RECON.reconstruct(tree)
    else:
        out = RECON.reconstruct(tree)
    with hs.untraced():
        rec['key'] = [text, True]
        rec['nontrivial'] = True
        rec['count'] = {'round_trips': 1}
        try:
            tree2 = LARK.parse(out)
        except UnexpectedInput as e:
            return hs.fail(rec, 'reconstructed text is not accepted by the parser', text=text, reconstructed=out, exc=repr(e))
        if tree2 != LARK.parse(text):
            return hs.fail(rec, 'reconstructed text parses to a different tree', text=text, reconstructed=out, got=hs.plain(tree2), want=hs.plain(tree))
        # one Reconstructor used on several trees: a fresh instance first reconstructs an earlier accepted input of this slice, then
        # this one (the per-rule matchers are built lazily and cached, so the order of use matters); histories of length 2, the first
        # element taken from the inputs this slice has accepted so far
        for prev in SEEN[-25:]:
            r2 = Reconstructor(LARK, **ROPTS)
            r2.reconstruct(LARK.parse(prev))
            out2 = r2.reconstruct(LARK.parse(text))
            rec['count']['pair_histories'] = rec['count'].get('pair_histories', 0) + 1
            try:
                ok = LARK.parse(out2) == LARK.parse(text)
            except UnexpectedInput:
                ok = False
            if not ok:
                return hs.fail(rec, 'after reconstructing another tree first, the reconstructed text no longer re-parses to the same tree',
                               first=prev, text=text, reconstructed=out2)
        if text not in SEEN:
            SEEN.append(text)
    return True


def check(cs: List[int]) -> bool:
    """
    pre: len(cs) <= L and (PIN is None or (len(cs) >= 1 and cs[0] == PIN) or (len(cs) == 0 and PIN == 0))
    post: _
    """
    return hs.run_path(_body, (cs,), corner=lambda cs: len(cs) >= 3)


def plan(tier, seed):
    quick = tier == 'quick'
    slices = []
    for g, (_, lex) in GRAMMARS.items():
        k = len(lex)
        for parser in ('lalr', 'earley'):
            if g == 'decl' and parser == 'earley':
                continue        # a post-lexer needs the basic or contextual lexer
            Lg = 5 if quick else 7
            if g in ('show', 'adj') and parser == 'lalr':
                Lg += 1         # 'a = a + a ;' has six lexemes
            for pin in [None]:
                slices.append({'id': '%s:%s:L%d' % (g, parser, Lg), 'mode': 'realised', 'params': {'g': g, 'parser': parser, 'L': Lg, 'pin': pin, 'mode': 'realised'},
                               'timeout': 400 if quick else 3000, 'bound': {'lexemes': Lg, 'kinds': k}})
        slices.append({'id': '%s:lalr:L4:traced' % g, 'params': {'g': g, 'parser': 'lalr', 'L': 4}, 'timeout': 400 if quick else 1500, 'bound': {'lexemes': 4, 'kinds': k}})
    meta = {
        'rule': 'one path per lexeme sequence (the text is rejected early for most); non-trivial = accepted input that was reconstructed and re-parsed',
        'technique': 'CrossHair symbolic execution (traced at small bounds; solver-closed realised enumeration at larger ones) of the real Reconstructor over lexeme-composed texts',
        'functions_encoded': ['lark.reconstruct.Reconstructor.reconstruct/_reconstruct', 'WriteTokensTransformer', 'lark.tree_matcher.TreeMatcher._build_recons_rules/match_tree', 'is_discarded_terminal',
                              'lark.utils.is_id_continue'],
        'bounds': {'lexemes': '5 quick; 7 thorough; 4 with the Reconstructor itself traced', 'grammars': list(GRAMMARS)},
        'outside_bounds': ['grammars outside the supported class', 'postproc', 'longer inputs'],
        'stubs_and_assumes': ['texts are lexeme-composed'],
    }
    return {'slices': slices, 'meta': meta}
