"""Text-level parse harness family (class-strings, DESIGN 2.3): C06 e2e positions, C01 text-level membership, C15.

Symbolic input: cs: List[int], len <= L; character k is a representative of alphabet class sel(cs[k], K); the classes are the
partition induced by the atoms of the *built* parser's terminals (vfw.alpha), so an exhausted path tree covers every string of
length <= L over the universe up to regex-indistinguishability.
"""
from typing import List

from vfw import hs, corpus, alpha
from vfw.refsem import cfg, shape, posref, lexref

P = hs.params()

if P:
    from lark import Lark, Tree, Token
    from lark.exceptions import UnexpectedInput, UnexpectedCharacters, UnexpectedToken, UnexpectedEOF

    ENTRY = corpus.TXT[P['g']]
    GRAMMAR = ENTRY['g']
    L = P['L']
    PARSER, LEXER = P['parser'], P['lexer']
    BYTES = P.get('bytes', False)
    ASSERTS = set(P.get('asserts', ['pos']))
    PIN = P.get('pin')
    REALISED = P.get('mode') == 'realised'
    FAMILY = 'basic' if LEXER in ('basic', 'contextual') else 'dynamic'
    BNF = cfg.BNF(GRAMMAR, maybe_placeholders=P.get('mp', True), keep_all_tokens=P.get('kat', False))
    _opts = dict(parser=PARSER, lexer=LEXER, propagate_positions=True, maybe_placeholders=P.get('mp', True),
                 keep_all_tokens=P.get('kat', False), use_bytes=BYTES)
    if PARSER == 'earley':
        _opts['ambiguity'] = P.get('ambiguity', 'resolve')
    LARK = Lark(GRAMMAR.render(), **_opts)
    PART = alpha.partition(alpha.terminal_patterns(LARK), universe=range(256) if BYTES else range(0x250), is_bytes=BYTES)
    REPS = PART.reps(hs.SEED)
    K = PART.K
    RX = cfg.text_regexps(GRAMMAR, BNF, as_bytes=BYTES)
    MODE = 'complete' if LEXER == 'dynamic_complete' else 'longest'
    BLEXER = hs.basic_lexer_of(LARK) if FAMILY == 'basic' else None
    # lark's names of anonymous literals -> the reference's names
    NAME_MAP = {}
    for _t in LARK.terminals:
        if _t.name in RX:
            NAME_MAP[_t.name] = _t.name
        elif _t.pattern.type == 'str':
            NAME_MAP[_t.name] = BNF.anon.get((_t.pattern.value, ''.join(sorted(_t.pattern.flags))), BNF._named_str.get(_t.pattern.value, _t.name))
    LARK_MODE = 'lark_complete' if LEXER == 'dynamic_complete' else 'lark_dynamic'
    if FAMILY == 'basic' and 'errpos' in ASSERTS:
        TERMS_REF = lexref.from_dsl(GRAMMAR, LARK, as_bytes=BYTES)
        IGNORE_REF = [n for n in GRAMMAR.ignore if not (n.startswith('/') or n.startswith('"'))] + [str(t.name) for t in LARK.terminals if str(t.name).startswith('__IGNORE')]


def worker_extra():
    return {'alphabet_classes': K, 'class_sizes': [len(c) for c in PART.classes], 'reps': [[repr(x) for x in r] for r in REPS]}


def _tokens_of(tree, out):
    for c in tree.children:
        if isinstance(c, Tree):
            _tokens_of(c, out)
        elif isinstance(c, Token):
            out.append(c)


def _check_token(rec, text, t):
    val = t.value
    if text[t.start_pos:t.end_pos] != val:
        return hs.fail(rec, 'text[start_pos:end_pos] != token', text=repr(text), token=[t.type, repr(val), t.start_pos, t.end_pos])
    want = posref.coords(text, t.start_pos)
    if (t.line, t.column) != want:
        return hs.fail(rec, 'token line/column wrong', text=repr(text), token=[t.type, repr(val), t.start_pos], got=[t.line, t.column], want=list(want))
    wante = posref.end_coords(text, t.end_pos, FAMILY, t.start_pos)
    if (t.end_line, t.end_column) != wante:
        return hs.fail(rec, 'token end_line/end_column wrong', text=repr(text), token=[t.type, repr(val), t.end_pos],
                       got=[t.end_line, t.end_column], want=list(wante))
    return True


def _check_meta(rec, text, want, got, path='root'):
    """want: shape_spans value; got: lark Tree/Token/None."""
    if want is None or got is None:
        if want is not None or got is not None:
            return hs.fail(rec, 'placeholder mismatch at %s' % path, text=repr(text))
        return True
    if isinstance(want, tuple) and want and want[0] == 'tok':
        if not isinstance(got, Token) or (got.start_pos, got.end_pos) != want[2]:
            return hs.fail(rec, 'token span differs from derivation at %s' % path, text=repr(text), want=list(want[2]),
                           got=[getattr(got, 'start_pos', None), getattr(got, 'end_pos', None)])
        return True
    label, span, kids = want
    if not isinstance(got, Tree) or got.data != label or len(got.children) != len(kids):
        return hs.fail(rec, 'tree shape differs from the derivation at %s' % path, text=repr(text), want=label, got=repr(got)[:200])
    m = got.meta
    if span is None:
        if not m.empty:
            return hs.fail(rec, 'empty node carries positions at %s' % path, text=repr(text))
    else:
        if m.empty:
            return hs.fail(rec, 'non-empty node has empty meta at %s' % path, text=repr(text), want=list(span))
        if (m.start_pos, m.end_pos) != span:
            return hs.fail(rec, 'meta span is not first..last matched token at %s' % path, text=repr(text), want=list(span), got=[m.start_pos, m.end_pos])
        if (m.line, m.column) != posref.coords(text, span[0]) or (m.end_line, m.end_column) != posref.end_coords(text, span[1], FAMILY):
            return hs.fail(rec, 'meta line/column wrong at %s' % path, text=repr(text), got=[m.line, m.column, m.end_line, m.end_column],
                           want=list(posref.coords(text, span[0]) + posref.end_coords(text, span[1], FAMILY)))
    for n, (w, c) in enumerate(zip(kids, got.children)):
        r = _check_meta(rec, text, w, c, '%s/%s[%d]' % (path, label, n))
        if r is not True:
            return r
    return True


def _frontier(prefix):
    return cfg.Frontier(BNF, cfg.TextInput(prefix, RX, ignore=GRAMMAR.ignore, mode=MODE))


def _check_text_error(rec, text, exc, recog):
    """C08 at text level (dynamic Earley lexers): class, position and exact continuation set of a rejection."""
    fr = _frontier(text)
    member = recog.member()
    rec['count']['errors_checked'] = 1
    if member:
        return hs.fail(rec, 'rejected a sentence', text=repr(text), exc=repr(exc))
    if isinstance(exc, UnexpectedEOF):
        if not fr.viable():
            return hs.fail(rec, 'UnexpectedEOF although the input is not a proper prefix of a sentence', text=repr(text))
        want = fr.next_terms() - {'$END'}
        got = {NAME_MAP.get(x, x) for x in exc.expected}
        if got != want:
            return hs.fail(rec, 'UnexpectedEOF.expected is not exactly the set of terminals that can come next', text=repr(text), got=sorted(got), want=sorted(want))
        return True
    if isinstance(exc, UnexpectedCharacters):
        if fr.viable():
            return hs.fail(rec, 'the input is a proper prefix of a sentence but %s was raised instead of UnexpectedEOF' % type(exc).__name__, text=repr(text),
                           pos=exc.pos_in_stream)
        i = exc.pos_in_stream
        fi = _frontier(text[:i])
        if not fi.viable():
            return hs.fail(rec, 'the prefix consumed up to the reported position cannot be extended to a sentence', text=repr(text), pos=i)
        for j in range(i + 1, len(text) + 1):
            if _frontier(text[:j]).viable():
                return hs.fail(rec, 'reported position %d is not the first offending one: the prefix of length %d is still extendable' % (i, j), text=repr(text))
        want = fi.next_terms() - {'$END'}
        got = {NAME_MAP.get(x, x) for x in (exc.allowed or ())}
        # terminals that could continue only by first consuming ignorable text that is present are legal continuations too: the frontier
        # of text[:i] allows ignorable text before i
        if got != want:
            return hs.fail(rec, 'UnexpectedCharacters.allowed is not exactly the set of terminals that can come next', text=repr(text), pos=i,
                           got=sorted(got), want=sorted(want))
        return True
    return hs.fail(rec, 'dynamic lexer rejection reported as %s' % type(exc).__name__, text=repr(text))


def _check_lalr_sets(rec, text, exc, prefix_kinds):
    """LALR: every terminal in accepts can legally come next and belongs to expected (whichever component built the exception:
    the parser, or the contextual lexer's fall-back to the root lexer)."""
    legal = cfg.Frontier(BNF, cfg.TokenInput(list(prefix_kinds))).next_terms()
    if PARSER == 'earley':
        # Earley with the basic lexer: the reported set contains every terminal that can legally come next
        got = {NAME_MAP.get(x, x) for x in (exc.allowed if isinstance(exc, UnexpectedCharacters) else exc.expected) or ()}
        if not (legal - {'$END'}) <= got:
            return hs.fail(rec, 'the reported continuation set misses a terminal that can legally come next', text=repr(text), reported=sorted(got), legal=sorted(legal))
        return True
    if PARSER != 'lalr' or isinstance(exc, UnexpectedCharacters):
        return True
    accepts = {NAME_MAP.get(x, x) for x in exc.accepts}
    expected = {NAME_MAP.get(x, x) for x in exc.expected}
    if not accepts <= legal:
        return hs.fail(rec, 'accepts holds a terminal that cannot legally come next', text=repr(text), accepts=sorted(accepts), legal=sorted(legal))
    if not accepts <= expected:
        return hs.fail(rec, 'a terminal in accepts does not belong to expected', text=repr(text), accepts=sorted(accepts), expected=sorted(expected))
    return True


def _check_text_error_basic(rec, text, exc):
    """C08 at text level for the basic/contextual lexers (grammars whose terminals do not depend on the parser state): the error is at
    the first token that makes the consumed prefix non-extendable, or at the first character no terminal matches, whichever comes
    first, with the line/column of that offset; an exhausted proper prefix is reported at the end with the last token's coordinates."""
    toks, lerr = lexref.lex(text, TERMS_REF, ignore=IGNORE_REF)
    kinds = [NAME_MAP.get(t[0], t[0]) for t in toks]
    rec['count']['errors_checked'] = int(exc is not None)
    bad = None
    for k in range(len(kinds)):
        if not cfg.Frontier(BNF, cfg.TokenInput(kinds[:k + 1])).viable():
            bad = k
            break
    if bad is not None:
        kind, pos = 'token', toks[bad][2]
    elif lerr is not None:
        kind, pos = 'char', lerr
    else:
        kind, pos = 'end', None
    member = kind == 'end' and cfg.Recognizer(BNF, cfg.TokenInput(kinds)).member()
    if exc is None:
        if not member:
            return hs.fail(rec, 'accepted a text whose token sequence is not a sentence', text=repr(text), kinds=kinds)
        return True
    if member:
        return hs.fail(rec, 'rejected a text whose token sequence is a sentence', text=repr(text), kinds=kinds, exc=repr(exc))
    if isinstance(exc, UnexpectedCharacters):
        if kind != 'char' or exc.pos_in_stream != pos:
            return hs.fail(rec, 'UnexpectedCharacters at %s, reference: first offending %s at %s' % (exc.pos_in_stream, kind, pos), text=repr(text))
        if (exc.line, exc.column) != posref.coords(text, pos):
            return hs.fail(rec, 'UnexpectedCharacters line/column are not those of its offset', text=repr(text), pos=pos, got=[exc.line, exc.column],
                           want=list(posref.coords(text, pos)))
        return _check_lalr_sets(rec, text, exc, kinds)
    if isinstance(exc, UnexpectedToken) and exc.token.type != '$END':
        t = exc.token
        if kind != 'token' or t.start_pos != pos:
            return hs.fail(rec, 'UnexpectedToken at %s, reference: first offending %s at %s' % (t.start_pos, kind, pos), text=repr(text), token=[t.type, str(t)])
        if (t.line, t.column) != posref.coords(text, pos) or (exc.line, exc.column) != (t.line, t.column):
            return hs.fail(rec, 'UnexpectedToken line/column are not those of the offending token', text=repr(text), pos=pos,
                           got=[t.line, t.column, exc.line, exc.column], want=list(posref.coords(text, pos)))
        return _check_lalr_sets(rec, text, exc, kinds[:bad])
    if isinstance(exc, (UnexpectedToken, UnexpectedEOF)):
        if kind != 'end':
            return hs.fail(rec, 'end of input reported, reference: first offending %s at %s' % (kind, pos), text=repr(text))
        if isinstance(exc, UnexpectedToken) and toks:
            t = exc.token
            last = toks[-1]
            if t.start_pos != last[2] or (t.line, t.column) != posref.coords(text, last[2]):
                return hs.fail(rec, 'unexpected $END does not carry the coordinates of the last token', text=repr(text), got=[t.start_pos, t.line, t.column],
                               want=[last[2]] + list(posref.coords(text, last[2])))
        return _check_lalr_sets(rec, text, exc, kinds)
    return hs.fail(rec, 'rejection reported as %s' % type(exc).__name__, text=repr(text))


def _body(rec, cs):
    text = hs.class_string(cs, REPS, use_bytes=BYTES)
    exc = tree = None
    with hs.watchdog():
        if REALISED:
            # the class-string is concrete here; the solver still owns exhaustiveness of the abstract domain (DESIGN 2.1)
            with hs.untraced():
                try:
                    tree = LARK.parse(text)
                except UnexpectedInput as e:
                    exc = e
        else:
            try:
                tree = LARK.parse(text)
            except UnexpectedInput as e:
                exc = e
    with hs.untraced():
        rec['key'] = text
        rec['nontrivial'] = exc is None and len(text) > 0
        rec['count'] = {'accepted': int(exc is None), 'rejected': int(exc is not None)}
        inp = cfg.TextInput(text, RX, ignore=GRAMMAR.ignore, mode=MODE)
        recog = cfg.Recognizer(BNF, inp)
        if 'member' in ASSERTS:
            is_member = recog.member()
            if is_member != (exc is None):
                if FAMILY == 'dynamic':
                    alt = cfg.Recognizer(BNF, cfg.TextInput(text, RX, ignore=GRAMMAR.ignore, mode=LARK_MODE)).member()
                    if alt == (exc is None):
                        # explained exactly by "re's preferred match is taken for the longest / for the only maximal one"
                        rec['fkey'] = 'preferred-match-not-longest:%s:%s' % (P['g'], LEXER)
                return hs.fail(rec, ('rejected a sentence' if is_member else 'accepted a non-sentence'), text=repr(text), exc=repr(exc))
        if exc is not None and 'errpos' in ASSERTS and FAMILY == 'dynamic':
            r = _check_text_error(rec, text, exc, recog)
            if r is not True:
                return r
        if 'errpos' in ASSERTS and FAMILY == 'basic':
            r = _check_text_error_basic(rec, text, exc)
            if r is not True:
                return r
        if exc is None and 'pos' in ASSERTS:
            toks = []
            _tokens_of(tree, toks)
            for t in toks:
                r = _check_token(rec, text, t)
                if r is not True:
                    return r
            # ordered, disjoint
            for a, b in zip(toks, toks[1:]):
                if not a.end_pos <= b.start_pos:
                    return hs.fail(rec, 'tokens out of order / overlapping', text=repr(text))
            ds = recog.derivations(limit=200)
            if len(ds) == 1:
                rec['count']['meta_checked'] = 1
                want = shape.shape_spans(ds[0], inp)
                if len(want) != 1:
                    return hs.fail(rec, 'oracle root is not a single tree', text=repr(text))
                if _check_meta({}, text, want[0], tree) is not True:
                    # is the mismatch exactly "a ?rule collapsed to a Token hides the filtered tokens around it"? (recorded finding)
                    if _check_meta({}, text, shape.shape_spans(ds[0], inp, shape.lark_extent)[0], tree) is True:
                        rec['fkey'] = 'collapsed-token-hides-filtered-span:%s' % P['g']
                r = _check_meta(rec, text, want[0], tree)
                if r is not True:
                    return r
            else:
                rec['count']['meta_skipped_ambiguous_or_lexer_dependent'] = 1
            if FAMILY == 'basic':
                for t in hs.lex_tokens(BLEXER, text):
                    r = _check_token(rec, text, t)
                    if r is not True:
                        return r
    return True


def _corner(cs):
    return len(cs) == L and hs.sel(cs[L - 1], K) == K - 1


def check(cs: List[int]) -> bool:
    """
    pre: len(cs) <= L and (PIN is None or (len(cs) >= 1 and cs[0] == PIN) or (len(cs) == 0 and PIN == 0))
    post: _
    """
    return hs.run_path(_body, (cs,), corner=_corner)
