"""E2: sre_parse -> z3 regular expressions, generated from the real terminals' to_regexp() strings (DESIGN 2.2).

The z3 alphabet is one representative character per class of the alphabet partition (vfw.alpha) taken over the given
universe, so a query result speaks about every string over the universe (class argument), not about a sampled alphabet.
Character sets of atoms are computed with the real re engine (flags are not re-modelled). Anchors, look-around,
back-references, possessive/atomic constructs are *not* translated: Unsupported is raised and the terminal is reported,
never silently passed. `unknown` and solver errors are inconclusive.
"""
import itertools
import re
import time

import z3

from . import alpha
from .alpha import C, Unsupported


class Translator:
    def __init__(self, patterns, universe=None, is_bytes=False):
        """patterns: list of (regexp, flags) that will be translated (their atoms define the partition)."""
        self.is_bytes = is_bytes
        self.part = alpha.partition(patterns, universe=universe, is_bytes=is_bytes)
        self.rep_cp = [cl[0] if not any(0x20 < c < 0x7f for c in cl) else next(c for c in cl if 0x20 < c < 0x7f) for cl in self.part.classes]
        self.rep_chars = [chr(c) for c in self.rep_cp]
        self._atom_cache = {}
        self.alphabet_re = self._charset(range(self.part.K))

    def _charset(self, class_ids):
        ids = list(class_ids)
        if not ids:
            return z3.Empty(z3.ReSort(z3.StringSort()))
        parts = [z3.Re(z3.StringVal(self.rep_chars[k])) for k in ids]
        return parts[0] if len(parts) == 1 else z3.Union(*parts)

    def _atom(self, atom, flags):
        key = (repr(atom), flags & (re.I | re.S | re.A | re.L | re.U | re.M))
        if key not in self._atom_cache:
            rx = alpha._compile_atom(atom, flags & ~re.X, self.is_bytes)
            ids = []
            for k, cp in enumerate(self.rep_cp):
                s = bytes([cp]) if self.is_bytes else chr(cp)
                if rx.fullmatch(s):
                    ids.append(k)
            self._atom_cache[key] = (self._charset(ids), ids)
        return self._atom_cache[key]

    def translate(self, pattern, flags=0):
        if self.is_bytes and isinstance(pattern, str):
            pattern = pattern.encode('utf-8')
        p = alpha.parse(pattern, flags)
        return self._seq(p, p.state.flags)

    def _seq(self, sub, flags):
        parts = [self._node(op, av, flags) for op, av in sub]
        if not parts:
            return z3.Re(z3.StringVal(''))
        return parts[0] if len(parts) == 1 else z3.Concat(*parts)

    def _node(self, op, av, flags):
        if op in alpha.SINGLE:
            return self._atom((op, av), flags)[0]
        if op is C.BRANCH:
            alts = [self._seq(a, flags) for a in av[1]]
            return alts[0] if len(alts) == 1 else z3.Union(*alts)
        if op is C.SUBPATTERN:
            group, add_flags, del_flags, p = av
            return self._seq(p, (flags | add_flags) & ~del_flags)
        if op in (C.MAX_REPEAT, C.MIN_REPEAT):
            lo, hi, p = av
            r = self._seq(p, flags)
            if hi is C.MAXREPEAT or hi >= 65535:
                if lo == 0:
                    return z3.Star(r)
                if lo == 1:
                    return z3.Plus(r)
                return z3.Concat(z3.Loop(r, lo, lo), z3.Star(r))
            return z3.Loop(r, lo, hi)
        raise Unsupported(str(op))

    def can_contain(self, R, ch, timeout_ms=20000, block=()):
        """(status, witness): is there s in L(R) containing ch?"""
        s = z3.String('s')
        sol = z3.Solver()
        sol.set('timeout', timeout_ms)
        sol.add(z3.InRe(s, R))
        sol.add(z3.Contains(s, z3.StringVal(ch)))
        for b in block:
            sol.add(s != z3.StringVal(b))
        r = sol.check()
        if str(r) == 'sat':
            return 'sat', _pystr(sol.model()[s])
        return str(r), None


def _pystr(v):
    try:
        return v.as_string().encode('utf-8').decode('unicode_escape') if '\\u{' not in v.as_string() else _unescape(v.as_string())
    except Exception:
        return _unescape(v.as_string())


def _unescape(s):
    return re.sub(r'\\u\{([0-9a-fA-F]+)\}', lambda m: chr(int(m.group(1), 16)), s)


def check(sol):
    t = time.time()
    r = sol.check()
    return str(r), time.time() - t


def validate(tr, pattern, flags=0, maxlen=3):
    """Translator validation: all strings of length <= maxlen over the class representatives through both re.fullmatch and the
    z3 regexp (concrete evaluation). Returns (n_checked, mismatches)."""
    R = tr.translate(pattern, flags)
    rx = re.compile(pattern, flags)
    bad = []
    n = 0
    for ln in range(maxlen + 1):
        for w in itertools.product(tr.rep_chars, repeat=ln):
            s = ''.join(w)
            n += 1
            want = rx.fullmatch(s) is not None
            got = z3.is_true(z3.simplify(z3.InRe(z3.StringVal(s), R)))
            if want != got:
                bad.append(s)
    return n, bad
