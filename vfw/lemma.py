"""Runs one E2 (direct solver query) job of a harness module.  usage: python -m vfw.lemma <module> <job-json> <out.json>
The module's run_lemma(job) returns {'status': 'holds'|'violated'|'inconclusive', 'queries': n, 'solver_s': s, 'detail': ..., 'violations': [...]}"""
import importlib
import json
import sys
import time
import traceback


def main():
    modname, job_json, out = sys.argv[1:4]
    t0 = time.time()
    res = {'status': 'error'}
    try:
        mod = importlib.import_module(modname)
        res = mod.run_lemma(json.loads(job_json))
    except BaseException as e:
        res = {'status': 'error', 'error': ''.join(traceback.format_exception(type(e), e, e.__traceback__))[-4000:]}
    res['wall_s'] = round(time.time() - t0, 3)
    with open(out, 'w') as f:
        json.dump(res, f, default=repr)


if __name__ == '__main__':
    main()
