"""Slice planning, 16-way process pool, result triage, native replay, known findings, evidence."""
import importlib
import json
import os
import re
import shutil
import subprocess
import sys
import tempfile
import time

from . import env

ROOT = env.ROOT
EVIDENCE_DIR = os.environ.get('VF_EVIDENCE_DIR') or os.path.join(ROOT, 'evidence')
REPLAY_DIR = os.path.join(EVIDENCE_DIR, 'replays')
KNOWN = os.path.join(ROOT, 'known_findings.json')
JOBS = int(os.environ.get('VF_JOBS', '16'))
EXIT_OK, EXIT_VIOLATION, EXIT_HARNESS = 0, 1, 3
GRACE_S = int(os.environ.get('VF_GRACE', '240'))
# wall budget per tier (seconds): slices not started before it is used up are reported as skipped (the bound in evidence shrinks)
DEFAULT_BUDGET = {'quick': None, 'thorough': 900}


def load_known(prop):
    try:
        with open(KNOWN) as f:
            data = json.load(f)
    except FileNotFoundError:
        return []
    return [e for e in data.get('findings', []) if e.get('property') == prop and e.get('status', 'open') == 'open']


def _child_env(params, twin=False, seed=0, hashseed=None, native=False):
    e = dict(os.environ)
    e['VF_PARAMS'] = json.dumps(params)
    e['VF_TWIN'] = '1' if twin else '0'
    e['VERIF_SEED'] = str(seed)
    # VF_REPO (development aid for trying seeded changes in a scratch worktree): import lark from there instead of /repo
    e['PYTHONPATH'] = os.pathsep.join(x for x in (os.environ.get('VF_REPO'), ROOT, e.get('PYTHONPATH', '')) if x)
    e['PYTHONDONTWRITEBYTECODE'] = '1'
    e['PYTHONHASHSEED'] = str(hashseed if hashseed is not None else 0)
    if native:
        e['VF_NATIVE'] = '1'
    else:
        e.pop('VF_NATIVE', None)
    return e


class Pool:
    def __init__(self, jobs=JOBS):
        self.jobs = jobs
        self.running = []

    def run(self, tasks, deadline=None):
        """tasks: list of dict(cmd, env, out, kill_after, tag). Returns list of (task, result-dict-or-None)."""
        pending = list(tasks)
        done = []
        while pending or self.running:
            while pending and len(self.running) < self.jobs:
                if deadline is not None and time.time() > deadline:
                    for t in pending:
                        done.append((t, {'status': 'skipped', 'reason': 'tier wall budget exhausted before start'}))
                    pending = []
                    break
                t = pending.pop(0)
                errf = open(t['out'] + '.stderr', 'wb')
                p = subprocess.Popen(t['cmd'], env=t['env'], cwd=ROOT, stdout=subprocess.DEVNULL, stderr=errf)
                errf.close()
                self.running.append((t, p, time.time()))
            still = []
            for t, p, st in self.running:
                rc = p.poll()
                if rc is None:
                    if deadline is not None and time.time() > deadline + GRACE_S:
                        p.kill()
                        p.wait()
                        done.append((t, {'status': 'killed', 'reason': 'tier wall budget exhausted (+%ds grace)' % GRACE_S}))
                        continue
                    if time.time() - st > t['kill_after']:
                        p.kill()
                        p.wait()
                        done.append((t, {'status': 'killed', 'reason': 'wall limit %.0fs' % t['kill_after']}))
                    else:
                        still.append((t, p, st))
                    continue
                try:
                    with open(t['out'] + '.stderr', 'rb') as ef:
                        ef.seek(max(0, os.path.getsize(t['out'] + '.stderr') - 3000))
                        err = ef.read().decode('utf-8', 'replace')
                except OSError:
                    err = ''
                try:
                    with open(t['out']) as f:
                        r = json.load(f)
                except Exception:
                    r = {'status': 'error', 'error': 'no result file (rc=%s): %s' % (rc, err)}
                done.append((t, r))
            self.running = still
            if self.running:
                time.sleep(0.05)
        return done


def parse_ce_args(message):
    """Fallback: extract the argument list from CrossHair's counterexample message."""
    m = re.search(r'when calling \w+\((.*?)\)(?: \(which returns .*\))?(?: with .*)?$', message, re.S)
    if not m:
        return None
    try:
        a, k = eval('(lambda *a, **k: (a, k))(%s)' % m.group(1), {'__builtins__': {}}, {})
        return list(a) + list(k.values())
    except Exception:
        return None


def check(prop, tier, seed):
    t0 = time.time()
    py = env.ensure()
    modname = 'vfw.harness.%s' % prop.lower()
    mod = importlib.import_module(modname)
    plan = mod.plan(tier, seed)
    only = os.environ.get('VF_ONLY')
    if only:
        # development aid: run the slices/lemmas whose id matches; evidence must then be redirected (a partial run is no evidence)
        import re as _re
        if not os.environ.get('VF_EVIDENCE_DIR'):
            print('VF_ONLY needs VF_EVIDENCE_DIR (partial runs do not write the registered evidence)')
            return 3
        plan['slices'] = [s for s in plan.get('slices', []) if _re.search(only, s['id'])]
        plan['lemmas'] = [j for j in plan.get('lemmas', []) if _re.search(only, j.get('name', ''))]
    scratch = tempfile.mkdtemp(prefix='vf_%s_' % prop)
    os.makedirs(REPLAY_DIR, exist_ok=True)
    ev_path = os.path.join(EVIDENCE_DIR, '%s.json' % prop)
    try:
        os.unlink(ev_path)
    except OSError:
        pass
    try:
        return _check(prop, tier, seed, py, modname, plan, scratch, ev_path, t0)
    finally:
        shutil.rmtree(scratch, ignore_errors=True)


def _check(prop, tier, seed, py, modname, plan, scratch, ev_path, t0):
    tasks = []
    n = 0
    for s in plan.get('slices', []):
        for twin in ((False, True) if s.get('twin', True) else (False,)):
            n += 1
            out = os.path.join(scratch, 'r%04d.json' % n)
            ct = s.get('timeout', 60)
            if os.environ.get('VF_SMOKE'):
                ct = int(os.environ['VF_SMOKE'])        # development aid: start every slice briefly (set-up and first paths), nothing is decided
            pt = s.get('path_timeout', max(10.0, ct ** 0.5))
            hseed = s.get('hashseed', (seed * 7919 + n) % 4294967295)
            tasks.append({'kind': 'slice', 'slice': s, 'twin': twin, 'out': out,
                          'cmd': [py, '-m', 'vfw.worker', s.get('module', modname), s.get('func', 'check'), str(ct), str(pt), out],
                          'env': _child_env(s.get('params', {}), twin=twin, seed=seed, hashseed=hseed),
                          'kill_after': ct * 2 + 60, 'order': (0 if not twin else 1, -ct) if tier == 'quick' else (ct, 0 if not twin else 1)})
    for j in plan.get('lemmas', []):
        n += 1
        out = os.path.join(scratch, 'r%04d.json' % n)
        tasks.append({'kind': 'lemma', 'job': j, 'out': out,
                      'cmd': [py, '-m', 'vfw.lemma', j.get('module', modname), json.dumps(j), out],
                      'env': _child_env({}, seed=seed), 'kill_after': j.get('timeout', 300), 'order': (-1, -j.get('timeout', 300))})
    tasks.sort(key=lambda t: t['order'])
    budget = plan.get('wall_budget', DEFAULT_BUDGET.get(tier))
    if os.environ.get('VF_WALL_BUDGET'):
        budget = float(os.environ['VF_WALL_BUDGET'])
    deadline = (t0 + budget) if budget else None
    results = Pool().run(tasks, deadline=deadline)

    known = load_known(prop)
    violations, known_hits, harness_errors, conditions = [], [], [], []
    evaluations = 0
    distinct_nt = 0
    samples = []
    counts = {}
    solver_s = 0.0
    z3_queries = 0
    twins_ok = twins_total = 0
    all_exhausted = True
    nreplay = 0

    def triage(fkey, what, replay_doc):
        nonlocal nreplay
        for k in known:
            if k.get('key') == fkey:
                known_hits.append((fkey, k.get('what', what)))
                return
        nreplay += 1
        path = os.path.join(REPLAY_DIR, '%s-%d.json' % (prop, nreplay))
        with open(path, 'w') as f:
            json.dump(replay_doc, f, indent=1, default=repr)
        violations.append((fkey, what, path))

    for t, r in results:
        if t['kind'] == 'lemma':
            j = t['job']
            st = r.get('status')
            z3_queries += int(r.get('queries', 0))
            solver_s += float(r.get('solver_s', 0.0))
            evaluations += int(r.get('queries', 0))
            distinct_nt += int(r.get('distinct_nontrivial', r.get('queries', 0)))
            samples.extend(r.get('samples', [])[:2])
            for k, v in (r.get('counts') or {}).items():
                counts[k] = counts.get(k, 0) + v
            conditions.append({'id': j.get('name'), 'kind': 'lemma', 'status': st, 'queries': r.get('queries'),
                               'solver_s': r.get('solver_s'), 'wall_s': r.get('wall_s'), 'detail': r.get('detail'),
                               'inconclusive': r.get('inconclusive')})
            if st == 'violated':
                for v in r.get('violations', [])[:3]:
                    triage(v.get('fkey'), v.get('what'), {'property': prop, 'kind': 'lemma', 'module': j.get('module', modname),
                                                          'job': j, 'violation': v})
            elif st == 'holds':
                pass
            elif st == 'inconclusive' or st in ('skipped', 'killed'):
                # not decided within the tier's wall budget: reported as not exhausted, never as held
                all_exhausted = False
            else:
                harness_errors.append('lemma %s: %s' % (j.get('name'), r.get('error') or r.get('reason') or st))
            continue
        s = t['slice']
        sid = s.get('id') or json.dumps(s.get('params', {}), sort_keys=True)
        st = r.get('status')
        cond = {'id': sid, 'kind': 'twin' if t['twin'] else 'slice', 'mode': s.get('mode', 'traced'), 'status': st,
                'paths': r.get('num_paths'), 'cpu_s': r.get('cpu_s'), 'wall_s': r.get('wall_s'),
                'bound': s.get('bound')}
        if t['twin']:
            twins_total += 1
            if st == 'refuted':
                ok, doc = _replay(py, t, r, scratch, twin=True)
                if ok is False:
                    twins_ok += 1
                    cond['status'] = 'refuted_as_required'
                else:
                    harness_errors.append('twin %s: counterexample did not reproduce natively: %s' % (sid, json.dumps(doc)[:500]))
            elif st in ('not_exhausted', 'killed', 'skipped', 'setup_failed_in_lark'):
                cond['status'] = 'twin_' + st
                all_exhausted = False
            else:
                harness_errors.append('twin %s not refuted: status=%s %s' % (sid, st, (r.get('error') or json.dumps(r.get('messages')))[:1500]))
            conditions.append(cond)
            continue
        evaluations += int(r.get('num_paths') or 0)
        distinct_nt += int(r.get('distinct_nontrivial') or 0)
        for k, v in (r.get('counts') or {}).items():
            counts[k] = counts.get(k, 0) + v
        if r.get('samples'):
            samples.append({'slice': sid, 'path': r['samples'][-1]})
        ex = r.get('extra') or {}
        z3_queries += int(ex.get('z3_queries', 0))
        solver_s += float(ex.get('z3_solver_s', 0.0))
        for fkey, krec in (r.get('known_hits') or {}).items():
            # a recorded finding was met on some path: confirm natively before printing KNOWN-FINDING
            ok_n, doc = _replay(py, t, {'fails': [krec]}, scratch, twin=False)
            nrec = (doc.get('native') or {}).get('rec') or {}
            if nrec.get('known') == fkey:
                what = next((k.get('what') for k in known if k.get('key') == fkey), krec.get('why'))
                known_hits.append((fkey, '%s (e.g. %s)' % (what, json.dumps({k: v for k, v in nrec.items() if k in ('text', 'kinds', 'why')})[:200])))
            else:
                harness_errors.append('slice %s: recorded finding %s met under tracing did not reproduce natively' % (sid, fkey))
        if st == 'confirmed':
            pass
        elif st == 'setup_failed_in_lark':
            out2 = os.path.join(scratch, 'setup_%d.json' % len(conditions))
            e2 = _child_env(s.get('params', {}), twin=False, native=True, hashseed=t['env'].get('PYTHONHASHSEED'))
            try:
                subprocess.run([py, '-m', 'vfw.replay', t['cmd'][3], '__setup__', '[]', out2], env=e2, cwd=ROOT, timeout=300,
                               stdout=subprocess.DEVNULL, stderr=subprocess.DEVNULL)
                with open(out2) as f:
                    nat = json.load(f)
            except Exception as ex:
                nat = {'error': repr(ex)}
            if nat.get('ok') is False and nat.get('in_lark'):
                doc = {'property': prop, 'kind': 'slice', 'module': t['cmd'][3], 'func': '__setup__', 'params': s.get('params', {}), 'twin': False, 'args': [],
                       'native': nat}
                triage(nat['rec']['fkey'], nat['rec']['why'], doc)
                cond['status'] = 'refuted'
            else:
                harness_errors.append('slice %s: set-up failed under the worker but not natively: %s' % (sid, (r.get('error') or '')[-800:]))
        elif st == 'refuted':
            ok, doc = _replay(py, t, r, scratch, twin=False)
            rec = (doc.get('native') or {}).get('rec') or {}
            why = rec.get('why') or ((doc.get('native') or {}).get('exc') or '').strip().split('\n')[-1] or ''
            if ok is False and (doc.get('native') or {}).get('exc_in_harness'):
                harness_errors.append('slice %s: the harness itself raised: %s' % (sid, ((doc.get('native') or {}).get('exc') or '')[-600:]))
            elif ok is False:
                fkey = rec.get('fkey') or ('%s:%s' % (sid, json.dumps(doc.get('args'))))
                if rec.get('timeout_only'):
                    cond['status'] = 'not_exhausted'
                    all_exhausted = False
                else:
                    triage(fkey, why[:300], doc)
                    cond['status'] = 'refuted'
                    cond['fkey'] = fkey
            else:
                msg = ' '.join(m.get('message', '') for m in r.get('messages', []))
                if 'HarnessTimeout' in msg:
                    cond['status'] = 'not_exhausted'
                    cond['note'] = 'watchdog fired under tracing only; native replay within budget'
                    all_exhausted = False
                else:
                    harness_errors.append('slice %s: counterexample did not reproduce natively: %s' % (sid, json.dumps(doc, default=repr)[:1500]))
        elif st in ('not_exhausted', 'killed', 'skipped'):
            all_exhausted = False
        else:
            harness_errors.append('slice %s: status=%s %s' % (sid, st, (r.get('error') or json.dumps(r.get('messages')))[:2000]))
        conditions.append(cond)

    wall = time.time() - t0
    meta = plan.get('meta', {})
    nconf = sum(1 for c in conditions if c['kind'] == 'slice' and c['status'] == 'confirmed')
    nslices = sum(1 for c in conditions if c['kind'] == 'slice')
    nlem = sum(1 for c in conditions if c['kind'] == 'lemma')
    nlem_ok = sum(1 for c in conditions if c['kind'] == 'lemma' and c['status'] == 'holds')
    from . import chx
    evidence = {
        'property_id': prop, 'tier': tier, 'seed': seed, 'level': 'model_checking',
        'coverage': {
            'evaluations': max(evaluations, 0),
            'distinct_nontrivial': distinct_nt,
            'rule': meta.get('rule', ''),
            'samples': samples[:12] or [{'note': 'no samples'}],
            'exhaustive': bool(all_exhausted and not harness_errors),
            'explanation': 'bounded symbolic exploration (CrossHair/z3) of the real code; see conditions for per-slice verdicts',
            'technique': meta.get('technique', 'CrossHair symbolic execution of real lark code + z3 lemmas'),
            'functions_encoded': meta.get('functions_encoded', []),
            'bounds': meta.get('bounds', {}),
            'outside_bounds': meta.get('outside_bounds', []),
            'stubs_and_assumes': meta.get('stubs_and_assumes', []),
            'conditions_confirmed': nconf, 'conditions_total': nslices,
            'lemmas_holding': nlem_ok, 'lemmas_total': nlem,
            'vacuity_twins': {'refuted_as_required': twins_ok, 'total': twins_total},
            'z3_queries': z3_queries, 'solver_time_s': round(solver_s, 3),
            'crosshair_cpu_s': round(sum(float(c.get('cpu_s') or 0) for c in conditions), 1),
            'counts': counts,
            'conditions': conditions,
            'known_findings_hit': [k for k, _ in known_hits],
            'harness_errors': harness_errors[:10],
        },
        'assumptions': list(chx.ASSUMPTIONS) + list(meta.get('assumptions', [])),
        'wall_s': round(wall, 2),
        'violations': len(violations),
    }
    with open(ev_path, 'w') as f:
        json.dump(evidence, f, indent=1, default=repr)

    seen = set()
    for fkey, what in known_hits:
        if fkey not in seen:
            seen.add(fkey)
            print('KNOWN-FINDING: property=%s %s [%s]' % (prop, what, fkey))
    print('%s %s: %d/%d conditions confirmed over all paths, %d/%d lemmas hold, %d/%d twins refuted as required, '
          '%d paths, %d z3 queries, %.0fs wall%s' % (prop, tier, nconf, nslices, nlem_ok, nlem, twins_ok, twins_total, evaluations,
                                                      z3_queries, wall, '' if all_exhausted else ' (some conditions not exhausted: see evidence)'))
    for fkey, what, path in violations[:12]:
        print('  violation %s: %s' % (str(fkey).encode('unicode_escape').decode()[:200], str(what).encode('unicode_escape').decode()[:600]))
        print('VIOLATION property=%s replay=%s' % (prop, path))
    if len(violations) > 12:
        print('  ... and %d more violations (see evidence/replays)' % (len(violations) - 12))
    if violations:
        return EXIT_VIOLATION
    if harness_errors:
        for h in harness_errors[:10]:
            print('HARNESS-ERROR: %s' % (h if len(h) < 700 else h[:250] + ' ... ' + h[-400:]), file=sys.stderr)
        return EXIT_HARNESS
    return EXIT_OK


def _replay(py, t, r, scratch, twin):
    s = t['slice']
    args = None
    for f in r.get('fails') or []:
        if 'args' in f:
            args = f['args']
    if args is None:
        for m in r.get('messages', []):
            args = parse_ce_args(m.get('message', ''))
            if args is not None:
                break
    doc = {'property': None, 'kind': 'slice', 'module': t['cmd'][3], 'func': t['cmd'][4], 'params': s.get('params', {}),
           'twin': twin, 'args': args, 'crosshair_messages': r.get('messages'), 'traced_rec': (r.get('fails') or [None])[-1]}
    if args is None:
        doc['native'] = {'error': 'could not recover counterexample arguments'}
        return None, doc
    out = os.path.join(scratch, 'replay_%d.json' % (abs(hash(json.dumps(doc, default=repr))) % 10 ** 9))
    hseed = t['env'].get('PYTHONHASHSEED')
    doc['hashseed'] = hseed
    e = _child_env(s.get('params', {}), twin=twin, native=True, hashseed=hseed)
    try:
        subprocess.run([py, '-m', 'vfw.replay', t['cmd'][3], t['cmd'][4], json.dumps(args), out], env=e, cwd=ROOT,
                       timeout=300, stdout=subprocess.DEVNULL, stderr=subprocess.DEVNULL)
        with open(out) as f:
            nat = json.load(f)
    except Exception as ex:
        nat = {'error': repr(ex)}
    doc['native'] = nat
    hist = r.get('history') or []
    if nat.get('ok') is True and hist and not twin:
        # not reproducible from a fresh process with this input alone: replay the calls the worker made before it on the same objects
        hf = out + '.hist.json'
        with open(hf, 'w') as f:
            json.dump({'args': args, 'history': hist}, f)
        try:
            subprocess.run([py, '-m', 'vfw.replay', t['cmd'][3], t['cmd'][4], '@' + hf, out], env=e, cwd=ROOT,
                           timeout=600, stdout=subprocess.DEVNULL, stderr=subprocess.DEVNULL)
            with open(out) as f:
                nat2 = json.load(f)
        except Exception as ex:
            nat2 = {'error': repr(ex)}
        if nat2.get('ok') is False:
            doc['native'] = nat2
            doc['history'] = hist
            doc['note'] = 'history-dependent: reproduces natively only after the %d earlier calls listed in "history" on the same instance' % len(hist)
            if isinstance(nat2.get('rec'), dict) and nat2['rec'].get('why'):
                nat2['rec']['why'] = nat2['rec']['why'] + ' [only after earlier calls on the same instance]'
            return False, doc
    return nat.get('ok'), doc


def replay_file(path):
    py = env.ensure()
    with open(path) as f:
        doc = json.load(f)
    if doc.get('kind') == 'lemma':
        out = tempfile.mktemp(suffix='.json')
        subprocess.run([py, '-m', 'vfw.lemma', doc['module'], json.dumps(doc['job']), out], env=_child_env({}), cwd=ROOT)
        with open(out) as f:
            r = json.load(f)
        os.unlink(out)
        print(json.dumps(r, indent=1)[:4000])
        return 1 if r.get('status') == 'violated' else 0
    out = tempfile.mktemp(suffix='.json')
    argspec = json.dumps(doc['args'])
    if doc.get('history'):
        hf = out + '.hist.json'
        with open(hf, 'w') as f:
            json.dump({'args': doc['args'], 'history': doc['history']}, f)
        argspec = '@' + hf
    subprocess.run([py, '-m', 'vfw.replay', doc['module'], doc['func'], argspec, out],
                   env=_child_env(doc.get('params', {}), twin=doc.get('twin', False), native=True, hashseed=doc.get('hashseed')), cwd=ROOT)
    with open(out) as f:
        r = json.load(f)
    os.unlink(out)
    print(json.dumps(r, indent=1)[:4000])
    return 1 if r.get('ok') is False else 0
