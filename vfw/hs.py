"""Harness support: per-path log, failure recording, vacuity twin, watchdog, list lexer, class strings.

A harness module (vfw/harness/cNN.py) defines functions with PEP-316 contracts whose body is
    return hs.run_path(_body, (arg1, arg2, ...), corner=_corner)
where _body(rec, *args) returns True when the property held on this path (rec is a dict that ends up in the
per-path log) and _corner(*args) (optional) designates the deepest corner of the bound for the vacuity twin.
"""
import contextlib
import json
import os
import signal
import sys
import time

try:
    from crosshair.tracers import NoTracing, ResumedTracing, is_tracing
    from crosshair.core import deep_realize, realize
except Exception:  # pragma: no cover  (plain /venv python without crosshair: native replay still works)
    NoTracing = ResumedTracing = None

    def is_tracing():
        return False

    def deep_realize(x):
        return x

    def realize(x):
        return x

LOG = []          # one record per explored path
HIST = []         # concrete replayable args of completed paths, when the harness can reconstruct them (rec['replay_args'])
CUR = {'kinds': []}   # realised abstract symbols pulled by lark on the current path (never forces realisation itself)
FAILS = []        # records of failing paths (with realised args)
TWIN = os.environ.get('VF_TWIN') == '1'
NATIVE = os.environ.get('VF_NATIVE') == '1'
SEED = int(os.environ.get('VERIF_SEED', '0') or 0)
CALL_BUDGET_S = float(os.environ.get('VF_CALL_BUDGET', '20' if not NATIVE else '5'))


class HarnessTimeout(Exception):
    """Raised by the watchdog inside a call into lark that exceeds its budget ("never hangs")."""


def params():
    return json.loads(os.environ.get('VF_PARAMS', '{}'))


@contextlib.contextmanager
def untraced():
    if is_tracing():
        with NoTracing():
            yield
    else:
        yield


@contextlib.contextmanager
def watchdog(seconds=None):
    """SIGALRM-based budget around one call into the code under test (main thread only)."""
    seconds = seconds or CALL_BUDGET_S

    def _on_alarm(signum, frame):
        raise HarnessTimeout('call exceeded %.1fs' % seconds)
    try:
        old = signal.signal(signal.SIGALRM, _on_alarm)
    except ValueError:      # not main thread
        yield
        return
    signal.setitimer(signal.ITIMER_REAL, seconds)
    try:
        yield
    finally:
        signal.setitimer(signal.ITIMER_REAL, 0)
        signal.signal(signal.SIGALRM, old)


def _plainify(x):
    try:
        json.dumps(x)
        return x
    except Exception:
        return repr(x)


_PLAIN = (int, bool, str, float, type(None), bytes)


def _concrete(x):
    """Copy of a log value with anything still symbolic replaced by '<sym>' (never realises: that would fork paths)."""
    t = type(x)
    if t in _PLAIN:
        return x if t is not bytes else x.decode('latin-1')
    if t in (list, tuple) or (isinstance(x, tuple) and t.__module__.startswith('vfw.')):
        return [_concrete(v) for v in x]
    if t is dict:
        return {str(k): _concrete(v) for k, v in x.items()}
    return '<sym>'


def _finish(rec):
    with untraced():
        for k in list(rec):
            rec[k] = _concrete(rec[k])


def run_path(body, args, corner=None):
    rec = {}
    LOG.append(rec)
    CUR['kinds'] = []
    CUR['ended'] = False
    try:
        ok = body(rec, *args)
    except Exception as e:          # CrossHair's control-flow exceptions are BaseException: not caught
        with untraced():
            rec['exc'] = '%s: %s' % (type(e).__name__, str(e)[:300])
        a = deep_realize(list(args))
        _finish(rec)
        rec['args'] = _plainify(a)
        FAILS.append(rec)
        raise
    if ok and TWIN and corner is not None and corner(*args):
        rec['twin'] = True
        ok = False
    ok = bool(ok)
    if ok and rec.get('known') and rec['known'] not in KNOWN_HITS:
        a = deep_realize(list(args))
        _finish(rec)
        rec['args'] = _plainify(a)
        KNOWN_HITS[rec['known']] = rec
    if not ok:
        a = deep_realize(list(args))
        _finish(rec)
        rec['args'] = _plainify(a)
        FAILS.append(rec)
    else:
        _finish(rec)
    if rec.get('replay_args') is not None:
        HIST.append(rec['replay_args'])
    return ok


def pick(x, lo, hi):
    """Concrete int equal to the symbolic x in [lo, hi] (one fork per value; keeps later code free of symbolic indices)."""
    for v in range(lo, hi + 1):
        if x == v:
            return v
    raise AssertionError('pick: value outside [%d, %d]' % (lo, hi))


def _load_known():
    path = os.path.join(os.path.dirname(os.path.dirname(os.path.abspath(__file__))), 'known_findings.json')
    try:
        with open(path) as f:
            return {e['key'] for e in json.load(f).get('findings', []) if e.get('status', 'open') == 'open'}
    except Exception:
        return set()


KNOWN_KEYS = _load_known()      # read-only: recorded genuine defects (never extended at run time)
KNOWN_HITS = {}                 # fkey -> first record (with realised args) that met it


def stub_percent_format():
    """Environment stub (recorded per harness): `fmt % args` with symbolic arguments returns fmt unformatted instead of realising the
    arguments. CrossHair's default realises every symbolic int that reaches an error message, which turns one path into one path
    per integer value; the message text is not the subject of any property."""
    try:
        import crosshair.core as core
        from crosshair.libimpl import builtinslib
    except Exception:
        return
    from crosshair import opcode_intercept as oi
    cls = oi.DeoptimizedPercentFormattingStr
    if getattr(cls, '_vf_stub', False):
        return
    orig = cls.__mod__

    def percent(self, other):
        with NoTracing():
            items = other if type(other) is tuple else (other,)
            symbolic = any(isinstance(x, builtinslib.SymbolicValue) for x in items)
        if symbolic:
            return self.value
        return orig(self, other)
    cls.__mod__ = percent
    cls._vf_stub = True
    # CPython >= 3.11 compiles literal '%s' % (a, b) into FORMAT_VALUE/BUILD_STRING: stub those conversions as well
    fsv = oi.FormatStashingValue

    def _stub(name, orig):
        def conv(self, *a):
            with NoTracing():
                symbolic = isinstance(self.value, builtinslib.SymbolicValue)
            if symbolic:
                self.formatted = '<sym>'
                return ''
            return orig(self, *a)
        setattr(fsv, name, conv)
    for name in ('__str__', '__format__', '__repr__'):
        _stub(name, getattr(fsv, name))


def fail(rec, why, **kw):
    """Record a property failure on this path. A failure whose specific key (rec['fkey']) is a recorded finding is logged and the
    path continues as held, so that the exploration goes on and any *other* violation is still found and reported."""
    with untraced():
        rec['why'] = why
        for k, v in kw.items():
            rec[k] = _plainify(deep_realize(v))
        fkey = rec.get('fkey')
        if fkey is not None and fkey in KNOWN_KEYS:
            rec['known'] = fkey
            return True
    return False


# ---------------------------------------------------------------------------------------------------------
# Token-level input: a custom lexer that realises a symbolic list of kind indices lazily.

def make_list_lexer(names, value_of=None):
    """Lexer class (interface 2): the 'text' is a list of ints; token k has type names[sel(ix[k], len(names))].
    Realisation happens when the parser pulls the token, so rejected prefixes prune their subtree."""
    from lark.lexer import Lexer, Token
    K = len(names)

    class ListLexer(Lexer):
        __future_interface__ = 2

        def __init__(self, lexer_conf):
            pass

        def lex(self, lexer_state, parser_state):
            ix = lexer_state.text
            k = 0
            while k < len(ix):
                name = names[sel(ix[k], K)]
                CUR['kinds'].append(name)
                val = value_of[name] if value_of else name.lower()
                yield Token(name, val, start_pos=k, line=1, column=k + 1, end_line=1, end_column=k + 2, end_pos=k + 1)
                k += 1
            CUR['ended'] = True
    return ListLexer


def sel(v, K):
    """Concrete index in [0, K) chosen by the symbolic int v: v itself when 0 <= v < K-1, otherwise K-1. Explicit comparisons
    (one cheap fork per value) are about twice as fast under CrossHair as indexing a list with a symbolic `v % K`."""
    if K <= 12:
        for j in range(K - 1):
            if v == j:
                return j
        return K - 1
    # large domains: bisection (log2 K forks per path instead of K)
    if v < 0 or v >= K:
        return K - 1
    lo, hi = 0, K - 1
    while lo < hi:
        mid = (lo + hi) // 2
        if v <= mid:
            hi = mid
        else:
            lo = mid + 1
    return lo


def kinds_of(ix, names):
    """Concrete kind names of a concrete index list."""
    K = len(names)
    return [names[i if 0 <= i < K - 1 else K - 1] for i in ix]


def class_string(cs, reps, use_bytes=False):
    """Text over the symbolic alphabet: character k is a representative of class cs[k] % K (two representatives per
    class, alternating by position)."""
    K = len(reps)
    out = []
    for k in range(len(cs)):
        r = reps[sel(cs[k], K)]
        out.append(r[k % len(r)])
    s = ''.join(out)
    return s.encode('latin-1') if use_bytes else s


def basic_lexer_of(lark_instance):
    """The BasicLexer the instance already built (Lark.lex() builds a new one - with a regexp collision check - on every call)."""
    lx = lark_instance.parser.lexer
    lx = getattr(lx, 'lexer', lx)               # PostLexConnector
    return getattr(lx, 'root_lexer', lx)        # ContextualLexer


def lex_tokens(lexer, text):
    from lark.lexer import LexerThread
    return LexerThread.from_text(lexer, text).lex(None)


def deep(t, meta=True):
    """Tree/Token -> nested tuples including token positions and tree meta (observational equality of parse results)."""
    from lark import Tree, Token
    if isinstance(t, Tree):
        m = ()
        if meta:
            mm = t.meta
            m = (bool(getattr(mm, 'empty', True)),) + tuple(getattr(mm, k, None) for k in ('start_pos', 'end_pos', 'line', 'column', 'end_line', 'end_column'))
        return ('tree', str(t.data), m) + tuple(deep(c, meta) for c in t.children)
    if isinstance(t, Token):
        return ('token', str(t.type), t.value, t.start_pos, t.end_pos, t.line, t.column, t.end_line, t.end_column)
    if isinstance(t, (list, tuple)):
        return tuple(deep(c, meta) for c in t)
    return t


def outcome(fn, *args):
    """('tree', deep) or ('error', class name, position, line, column) of a parse-like call."""
    from lark.exceptions import UnexpectedInput
    try:
        return ('tree', deep(fn(*args)))
    except UnexpectedInput as e:
        return ('error', type(e).__name__, e.pos_in_stream, getattr(e, 'line', None), getattr(e, 'column', None))


def plain(t):
    """Tree/Token -> nested tuples for structural comparison and logging."""
    from lark import Tree, Token
    if isinstance(t, Tree):
        return (str(t.data),) + tuple(plain(c) for c in t.children)
    if isinstance(t, Token):
        return ('%s' % t.type, str(t))
    if t is None:
        return None
    if isinstance(t, (list, tuple)):
        return tuple(plain(c) for c in t)
    return t
