"""The symbolic alphabet (DESIGN 2.3): partition of a universe of characters into classes that no terminal of a given set
can tell apart. Every single-character atom of every terminal regexp is compiled *alone* with the real re engine and
evaluated on every code point; two characters with equal membership vectors are interchangeable in every regexp built from
those atoms by concatenation, alternation, repetition, groups, look-around and anchors (back-references are refused)."""
import random
import re
import warnings

with warnings.catch_warnings():
    warnings.simplefilter('ignore')
    try:
        import re._parser as sre_parse
        import re._compiler as sre_compile
        import re._constants as C
    except ImportError:  # pragma: no cover
        import sre_parse
        import sre_compile
        import sre_constants as C


class Unsupported(Exception):
    pass


SINGLE = {C.LITERAL, C.NOT_LITERAL, C.ANY, C.IN}


def parse(pattern, flags=0):
    return sre_parse.parse(pattern, flags)


def walk_atoms(sub, flags, out, state):
    """Collect (atom_node, effective_flags) for every single-character atom; refuse what the class argument cannot cover."""
    for op, av in sub:
        if op in SINGLE:
            out.append(((op, av), flags))
        elif op is C.BRANCH:
            for alt in av[1]:
                walk_atoms(alt, flags, out, state)
        elif op is C.SUBPATTERN:
            group, add_flags, del_flags, p = av
            walk_atoms(p, (flags | add_flags) & ~del_flags, out, state)
        elif op in (C.MAX_REPEAT, C.MIN_REPEAT) or op is getattr(C, 'POSSESSIVE_REPEAT', None):
            walk_atoms(av[2], flags, out, state)
        elif op is getattr(C, 'ATOMIC_GROUP', None):
            walk_atoms(av, flags, out, state)
        elif op in (C.ASSERT, C.ASSERT_NOT):
            walk_atoms(av[1], flags, out, state)
        elif op is C.AT:
            state['anchors'].add(str(av))
        elif op in (C.GROUPREF, C.GROUPREF_EXISTS):
            raise Unsupported('back-reference')
        else:
            raise Unsupported(str(op))


def atoms_of(pattern, flags=0):
    p = parse(pattern, flags)
    state = {'anchors': set()}
    out = []
    gflags = p.state.flags
    walk_atoms(p, gflags, out, state)
    return p, out, state


def _compile_atom(atom, flags, is_bytes):
    st = sre_parse.State()
    st.flags = flags
    st.str = b'' if is_bytes else ''
    sp = sre_parse.SubPattern(st, [atom])
    return sre_compile.compile(sp, flags)


class Partition:
    def __init__(self, classes, atoms, universe, is_bytes):
        self.classes = classes          # list of lists of code points
        self.atoms = atoms              # list of (key, compiled)
        self.universe = universe
        self.is_bytes = is_bytes
        self.K = len(classes)
        self.class_of = {}
        for k, cl in enumerate(classes):
            for c in cl:
                self.class_of[c] = k

    def reps(self, seed=0, per_class=2):
        """Representatives (as 1-char str, latin-1 safe for bytes) per class; seed moves them inside the class."""
        rng = random.Random(seed)
        out = []
        for cl in self.classes:
            pref = [c for c in cl if 0x20 < c < 0x7f] or cl
            if seed == 0:
                pick = [pref[0]] + ([pref[-1]] if len(pref) > 1 else ([cl[-1]] if cl[-1] != pref[0] else []))
            else:
                pick = rng.sample(pref, min(per_class, len(pref)))
                if len(pick) < per_class and len(cl) > len(pick):
                    extra = [c for c in cl if c not in pick]
                    pick += rng.sample(extra, min(per_class - len(pick), len(extra)))
            out.append([chr(c) for c in pick[:per_class]])
        return out

    def describe(self):
        d = []
        for cl in self.classes:
            d.append({'size': len(cl), 'example': repr(chr(cl[0])) if not self.is_bytes else cl[0]})
        return d


def partition(patterns, universe=None, extra_chars=('\n',), extra_atoms=(), is_bytes=False):
    """patterns: iterable of (regexp_source, flags). Returns Partition over `universe` (iterable of code points)."""
    if universe is None:
        universe = range(0x250) if not is_bytes else range(256)
    universe = list(universe)
    compiled = {}
    need_word = False
    for pat, flags in patterns:
        if is_bytes and isinstance(pat, str):
            pat = pat.encode('utf-8')
        p, atoms, state = atoms_of(pat, flags)
        if any('BOUNDARY' in a for a in state['anchors']):
            need_word = True
        for atom, fl in atoms:
            key = (repr(atom), fl & (re.I | re.S | re.A | re.L | re.U | re.M | re.X))
            if key not in compiled:
                compiled[key] = _compile_atom(atom, fl & ~re.X, is_bytes)
    extras = list(extra_atoms)
    if need_word:
        extras.append(r'\w')
    for src in extras:
        compiled[('extra', src)] = re.compile(src.encode() if is_bytes else src)
    for ch in extra_chars:
        compiled[('char', ch)] = re.compile(re.escape(ch.encode('latin-1') if is_bytes else ch))
    keys = sorted(compiled, key=repr)
    groups = {}
    for c in universe:
        s = bytes([c]) if is_bytes else chr(c)
        if not is_bytes and 0xD800 <= c <= 0xDFFF:
            continue
        vec = tuple(compiled[k].fullmatch(s) is not None for k in keys)
        groups.setdefault(vec, []).append(c)
    classes = sorted(groups.values(), key=lambda cl: cl[0])
    return Partition(classes, [(k, compiled[k]) for k in keys], universe, is_bytes)


def terminal_patterns(lark_instance):
    """(regexp, flags) for every terminal of a built Lark instance, as the real lexer would compile them."""
    out = []
    gflags = lark_instance.options.g_regex_flags
    for t in lark_instance.terminals:
        out.append((t.pattern.to_regexp(), gflags))
    return out
