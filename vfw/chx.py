"""CrossHair configuration used by every worker (DESIGN 2.1).

Two defaults of crosshair-tool 0.0.110 make it unusable on lark and are switched off:
 (a) short-circuiting of contract-bearing / patched callees (the patched builtin hash() is replaced by an
     uninterpreted symbolic int on a fraction of calls; every Earley Item calls hash()), and
 (b) the set()/dict() constructor patches that return O(n) linear containers.
Both are recorded as assumptions in evidence.
"""
_done = False


def configure():
    global _done
    if _done:
        return
    import crosshair.core_and_libs  # noqa: F401  (registers all library patches)
    import crosshair.core as core
    core.consider_shortcircuit = lambda *a, **k: None
    for ctor in (set, dict):
        core._PATCH_REGISTRATIONS.pop(ctor, None)
    _done = True


ASSUMPTIONS = [
    "crosshair-tool 0.0.110: an exhausted path tree ('Confirmed over all paths') covers every input within the precondition",
    "CrossHair sub-call short-circuiting disabled (consider_shortcircuit -> None)",
    "CrossHair set()/dict() constructor patches removed; symbolic keys are realised by CrossHair's hash/opcode intercepts",
]
