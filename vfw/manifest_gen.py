"""Regenerates MANIFEST.json from the per-property registry below (python -m vfw.manifest_gen)."""
import json
import os

ROOT = os.path.dirname(os.path.dirname(os.path.abspath(__file__)))

# property -> (technique, level text, level note, design ref); only properties with a working check are listed
CLAIMED = {}
NOT_APPLICABLE = {}


def claim(pid, technique, text, note, ref):
    CLAIMED[pid] = dict(technique=technique, text=text, note=note, ref=ref)


claim('C01', 'CrossHair symbolic execution of the real Earley parser over lazily realised token-kind sequences and class-strings, vs. a reference CFG recogniser',
      'Bounded: for each corpus grammar every token string up to the length bound (and every class-string up to the character bound) is explored by the solver-closed path tree; '
      'acceptance must equal membership in the reference semantics. Grammars are a stated corpus, not all grammars.',
      'Trusted: CPython re, CrossHair path exhaustion (cross-checked by vacuity twins), the refsem oracle. Bounds in evidence.', '3/C01')
claim('C02', 'CrossHair symbolic execution of the real LALR table construction (symbolic grammar-template indices, unbounded symbolic rule priorities) and of the real '
      'parser loop fed a lazily realised symbolic token sequence, vs. a canonical-LR(1)-merged reference automaton',
      'Bounded: every grammar of the stated template and corpus, every token string up to the bound; state-by-state table equality closes the per-grammar "all states" quantifier; '
      'reduce/reduce priority resolution is decided for all integer priorities.',
      'Trusted: refsem.lalrref (textbook construction), CrossHair path exhaustion (vacuity twins). Grammars with useless symbols are skipped and counted.', '3/C02')
claim('C03', 'CrossHair symbolic execution of the real parsers (Earley, LALR, CYK) and ParseTreeBuilder callbacks over lazily realised token sequences, '
      'vs. an independent derivation + shaping oracle',
      'Bounded: every token string up to the bound on each corpus grammar and option combination; the tree must be the documented shaping of a derivation (of the derivation when unique, '
      'hence engines agree).', 'Trusted: refsem.cfg/shape oracle, CrossHair exhaustion (twins).', '3/C03')
claim('C07', 'CrossHair symbolic execution of the real BasicLexer/ContextualLexer over the regex-indistinguishable alphabet partition vs. a reference lexer implementing the documented '
      'precedence, plus z3 regex-theory lemmas on the real terminals (keyword/unless table membership, pairwise disjointness of regexp terminals)',
      'Bounded by string length per terminal set (str and bytes) and by the terminal-set corpus (incl. 131 terminals around the 100-group chunk boundary); lemmas are unbounded over strings.',
      'Trusted: terminal definitions (widths, priorities) are inputs of the reference; z3 regex theory; alphabet partition argument.', '3/C07')
claim('C08', 'CrossHair symbolic execution of the real parsers; exception class, first-offending-token index and expected/accepts sets vs. reference viable-prefix and next-terminal sets; '
      'other exception types escape as counterexamples; watchdog for hangs',
      'Bounded: every token string up to the bound per corpus grammar (Earley, LALR, CYK); token-level positions.',
      'Trusted: refsem.cfg viable-prefix computation; grammars without unproductive rules.', '3/C08')
claim('C09', 'CrossHair symbolic execution of small_factors (symbolic n) and _generate_repeats (symbolic bounds) with z3 LIA queries deciding the count language of the generated helper rules '
      'for all k, z3 regex-theory equivalence of terminal-level repetition patterns, and CrossHair-driven end-to-end parses around the bounds',
      'Bounded in n, mx, m (stated in evidence); unbounded in the repetition count k (LIA) and in the matched string (regex theory).',
      'Trusted: z3 LIA/regex theory, the compositional interval argument (sum of intervals is an interval; union checked by z3).', '3/C09')
claim('C10', 'CrossHair symbolic execution of call histories on one instance (parse/lex/scan/interactive generators dropped part-way, failing calls, other instances, Reconstructor, Indenter) '
      'and CrossHair-enumerated preemption-bounded schedules of two real threads making their first calls on a fresh instance (line-level stepper, symbolic switch positions)',
      'Bounded: <= 2-3 earlier operations out of 8 kinds, 10 probes, 4-6 instance configurations; <= 3-4 context switches inside stated gap windows at line granularity in the shared-state functions.',
      'Worker threads run untraced; only the schedule is symbolic; bytecode-level races and free-threaded builds are outside.', '3/C10')
claim('C11', 'CrossHair solver-closed enumeration of class-strings / lexeme sequences and API choices (parse, parse_interactive+accepts, scan) against four independently obtained parsers '
      '(direct, load(save()), cache hit, generated stand-alone module executed in-process), compared structurally incl. positions and meta',
      'Bounded by input length per configuration (10 configurations: lexers, keep_all_tokens, maybe_placeholders, propagate_positions, multiple starts, bytes, global regex flags, imports+templates+priorities, 131 terminals).',
      'Realised mode (re/pickle are C extensions); the direct parser is the reference (relational property).', '3/C11')
claim('C12', 'CrossHair solver-closed enumeration of fault positions (truncation offsets, byte replacements) and build histories over an in-memory file-system stub, realised; '
      'behavioural equivalence with an uncached build plus a rebuild counter',
      'Fault enumeration in the solver-based style: the abstract fault domain is closed by CrossHair (quick: every pickle opcode/argument boundary; thorough: every byte); the rest runs concretely '
      'because pickle is a C extension. Equivalence is judged on a probe set.',
      'Trusted: the FS stub contract; probe-set equivalence; lark logger silenced.', '3/C12')
claim('C13', 'CrossHair symbolic execution of the real InteractiveParser / ImmutableInteractiveParser / ParserState / LexerThread code over symbolic fork histories '
      '(prefix, fork kind, two continuations, interleaving, accepts step; resume/exhaust with text attached; resume from an error state)',
      'Bounded in prefix/continuation length and fork depth (2 levels); every parser must end with parse() of exactly its own token sequence; accepts() exact.',
      'Trusted: the real parser run afresh on each sequence is the reference (the property is relational).', '3/C13')
claim('C14', 'CrossHair solver-closed enumeration of class-strings and TextSlice windows (symbolic integer offsets) through the real scan(); the property itself is evaluated with parse() on substrings '
      '(values, full-text positions, ignored-text boundaries, longest, nothing skipped)',
      'Bounded by text length over the alphabet partition; all windows [a, b); basic and contextual lexers; str and bytes. The longest/skipped clauses are asserted for spans whose isolated '
      'tokenisation equals the in-context one (others counted).', 'Relational: parse() on the substring is the reference; refsem.posref for coordinates.', '3/C14')
claim('C15', 'CrossHair solver-closed enumeration (realised) of ASCII class-strings, enclosing buffers and representations (bytes, TextSlice of str/bytes, negative indices, whole-text slice) '
      'through every lexer that accepts the representation; the str parse is the reference, coordinates are checked against the underlying buffer',
      'Bounded by text length and a fixed list of junk prefix/suffix pairs; 5 parser/lexer pairs.', 'Relational; refsem.posref for coordinates.', '3/C15')
claim('C16', 'CrossHair symbolic execution of the real embedded-transformer plumbing over lexeme-composed texts for a family of pure transformer classes, and of the four transformer '
      'classes over symbolic tree shapes with call-recording callbacks',
      'Bounded by text length (lexemes), transformer family (5 classes: plain, terminal callbacks, v_args inline, v_args tree, partial) and tree size.',
      'Relational: transform-afterwards is the reference for the embedded run; Transformer is the reference for its variants.', '3/C16')
claim('C17', 'CrossHair solver-closed enumeration (realised) of module-set programs (import subsets, renaming, transitive import, %override, %extend, same-named local definitions, nested templates) '
      'and statement sequences; a textual inliner implementing the documented renaming rule produces the reference grammar; both are built by the real front end',
      'Bounded: 128 programs of one module-set template x statement sequences up to the bound; LALR (quick) and Earley (thorough).',
      'Trusted: the ~40 line textual inliner; trees compared after stripping the documented module__ prefix.', '3/C17')
claim('C18', 'CrossHair symbolic execution of the real Indenter: one handle_NL step from an arbitrary symbolic state (unbounded stack values, bracket depth, tab_len) and bounded '
      'lazily realised token streams incl. streams after an abandoned/failed earlier stream, vs. CPython\'s stack algorithm and the real tokenize module',
      'The step harness is inductive (one step from an arbitrary valid state covers streams of any length) for stack depth <= 6; streams are bounded in length.',
      'Trusted: reference algorithm; stub: formatting of symbolic ints into the DedentError message returns the template.', '3/C18')
claim('C04', 'CrossHair symbolic execution of the real Earley SPPF construction and explicit-ambiguity tree building over lazily realised token sequences and class-strings, '
      'vs. the complete derivation set of a reference enumerator (set equality); direct derivation-tree validity for cyclic grammars; watchdog for termination',
      'Bounded: every token string / class-string up to the bound on each corpus grammar; completeness and soundness as set equality of shaped trees.',
      'Trusted: refsem.cfg derivation enumeration and refsem.shape.', '3/C04')
claim('C05', 'CrossHair symbolic execution of the real Earley forest priority code with unbounded symbolic integer rule/terminal priorities (solver decides optimality for all of Z^n per path), '
      'solver-closed enumeration of priority vectors x priority modes through Lark.__init__, sampled hash seeds for determinism',
      'Optimality is decided for all signed priorities on each (corpus grammar, ambiguous input) pair; inputs and grammars are bounded; hash seeds are sampled (declared outside the quantifier).',
      'Trusted: refsem derivation enumeration; priorities are written into Rule.options after construction in the symbolic harness.', '3/C05')
claim('C19', 'CrossHair symbolic execution over lazily realised lexeme sequences (LALR viability filter prunes rejected prefixes); parse -> reconstruct -> parse on grammars of the supported class; '
      'the Reconstructor runs traced at the small bound and realised at the larger one',
      'Bounded by the number of lexemes per grammar (3 grammars: expressions with ?-rules and aliases, keyword/inlined/! rules, JSON-like with optional lists).',
      'Relational (round trip); grammars hand-checked to be in the supported class.', '3/C19')
claim('C20', 'CrossHair symbolic execution of the real SPPF construction and every forest visitor/transformer class, vs. the set of unshaped derivation trees; walks on cyclic grammars '
      'under a watchdog with on_cycle accounting',
      'Bounded as C04; completeness for BNF grammars (helper-rule names of EBNF expansions are not part of the documented forest).',
      'Trusted: refsem.cfg derivation enumeration.', '3/C20')
claim('C06', 'z3 regex-theory queries on sre_parse translations of the real terminal regexps (newline lemma, unbounded over strings) + CrossHair symbolic execution of LineCounter '
      'from an arbitrary integer pre-state + CrossHair over all class-strings through every lexer',
      'The newline lemma is decided for all strings per terminal spelling; the counter step is inductive over unbounded integer state with a bounded token; the end-to-end part is bounded by '
      'string length over the regex-indistinguishable alphabet partition.',
      'Trusted: z3 string/regex theory, sre_parse, the class partition argument (DESIGN 2.3), refsem.posref. Unsupported regexp constructs are listed, not passed.', '3/C06')


def main():
    checks = []
    for pid in sorted(CLAIMED):
        c = CLAIMED[pid]
        checks.append({
            'property_id': pid,
            'quick_cmd': './vf check %s --tier quick' % pid,
            'thorough_cmd': './vf check %s --tier thorough' % pid,
            'evidence_file': 'evidence/%s.json' % pid,
            'replay_cmd_template': './vf replay {path}',
            'engine': 'vf',
            'level_claimed': {'category': 'model_checking', 'text': c['text'], 'design_ref': c['ref']},
            'level_note': c['note'],
            'technique': c['technique'],
        })
    props = [json.loads(l)['id'] for l in open(os.path.join(ROOT, 'properties.jsonl'))]
    na = []
    for pid in props:
        if pid not in CLAIMED:
            na.append({'property_id': pid, 'reason': NOT_APPLICABLE.get(pid, 'check not built yet in this round (planned: see DESIGN.md section 3); not claimed until it runs')})
    m = {
        'version': 1,
        'setup_cmd': './vf setup',
        'hooks': {'guard': 'LARK_VERIF', 'enable': 'no source hooks are needed: harnesses drive lark through its public API, custom lexer classes and monkey-patching from the harness side',
                  'baseline_off_cmd': 'cd /repo && /venv/bin/python -m pytest -ra -q -p no:cacheprovider --timeout=900 --continue-on-collection-errors',
                  'source_commits': [], 'add_only': True},
        'engines': [{'name': 'vf', 'path': 'vf', 'serves_properties': sorted(CLAIMED),
                     'kind_free_text': 'CrossHair (z3) symbolic execution of the real lark code per harness condition, direct z3 queries generated from real artefacts, '
                                       'native replay of every counterexample'}],
        'checks': checks,
        'notes': 'Exit codes: 0 held / 1 VIOLATION (after native replay) / 3 harness error. Bounds actually exhausted are in evidence (coverage.conditions).',
        'not_applicable': na,
    }
    with open(os.path.join(ROOT, 'MANIFEST.json'), 'w') as f:
        json.dump(m, f, indent=1)
    return m


if __name__ == '__main__':
    m = main()
    print('claimed:', [c['property_id'] for c in m['checks']])
