"""Idempotent bootstrap of /verif/.venv: an overlay on /venv plus crosshair-tool / z3 from the offline wheelhouse."""
import fcntl
import os
import subprocess
import sys

ROOT = os.path.dirname(os.path.dirname(os.path.abspath(__file__)))
VENV = os.path.join(ROOT, '.venv')
PY = os.path.join(VENV, 'bin', 'python')
BASE_PY = '/venv/bin/python'
BASE_SITE = '/venv/lib/python3.12/site-packages'
WHEELS = '/opt/veriftools/wheels'
STAMP = os.path.join(VENV, '.vf_ready')


def ensure(verbose=False):
    if os.path.exists(STAMP):
        return PY
    lock_path = os.path.join(ROOT, '.venv.lock')
    with open(lock_path, 'w') as lock:
        fcntl.flock(lock, fcntl.LOCK_EX)
        if os.path.exists(STAMP):
            return PY
        out = None if verbose else subprocess.DEVNULL
        subprocess.check_call([BASE_PY, '-m', 'venv', '--clear', VENV], stdout=out)
        site = os.path.join(VENV, 'lib', 'python3.12', 'site-packages')
        with open(os.path.join(site, '_vf_overlay.pth'), 'w') as f:
            f.write("import site; site.addsitedir(%r)\n" % BASE_SITE)
        env = dict(os.environ, PIP_NO_INDEX='1', PIP_DISABLE_PIP_VERSION_CHECK='1')
        subprocess.check_call([PY, '-m', 'pip', 'install', '-q', '--no-index', '--find-links', WHEELS,
                               'crosshair-tool', 'z3-solver', 'jsonschema'], stdout=out, env=env)
        subprocess.check_call([PY, '-c', 'import lark, crosshair, z3'])
        with open(STAMP, 'w') as f:
            f.write('ok\n')
    try:
        os.unlink(lock_path)
    except OSError:
        pass
    return PY


if __name__ == '__main__':
    print(ensure(verbose=True))
