"""Source-coordinate reference: the 1-based line and column of an offset in a text."""


def coords(text, pos):
    nl = b'\n' if isinstance(text, bytes) else '\n'
    line = text.count(nl, 0, pos) + 1
    last = text.rfind(nl, 0, pos)
    return line, pos - (last + 1) + 1


def end_coords(text, end_pos, family, start_pos=None):
    """Coordinates a token end is documented to carry.
    family 'basic' (basic/contextual lexers): the coordinates of offset end_pos (after a trailing newline: column 1 of the
    next line). family 'dynamic' (Earley dynamic lexers): one past the last character on that character's own line."""
    if family == 'basic' or end_pos == 0 or (start_pos is not None and end_pos == start_pos):
        return coords(text, end_pos)
    line, col = coords(text, end_pos - 1)
    return line, col + 1
