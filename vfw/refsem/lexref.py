"""Reference basic lexer: documented precedence.

At every position the first matching terminal in the documented order - higher priority, then longer maximal width, then longer
pattern, then name - is chosen; a regexp terminal's match that is exactly a same-priority string terminal is reported as that
string terminal (keywords vs identifiers). Tokens must be non-empty; ignored ones are dropped; where no terminal matches the
position is an error."""
import re


class RefTerm:
    def __init__(self, name, regexp, priority, max_width, patlen, is_str, flags=0, as_bytes=False):
        self.name, self.priority, self.max_width, self.patlen, self.is_str = name, priority, max_width, patlen, is_str
        self.rx = re.compile(regexp.encode('latin-1') if as_bytes else regexp, flags)


def from_lark(lark_instance, as_bytes=False):
    """Terminal definitions (name, pattern source, priority, widths) as *inputs* of the reference: taken from the built parser's
    TerminalDef objects; ordering and matching are re-done here."""
    out = []
    for t in lark_instance.terminals:
        out.append(RefTerm(t.name, t.pattern.to_regexp(), t.priority, t.pattern.max_width, len(t.pattern.value), t.pattern.type == 'str',
                           lark_instance.options.g_regex_flags, as_bytes))
    return out


def from_dsl(grammar, lark_instance, gflags=0, as_bytes=False):
    """Terminal definitions taken from the DSL grammar itself (name, pattern, priority as *written*), widths computed here with
    sre_parse on the terminal's regexp including its flags - independent of the TerminalDef objects lark built. Inline %ignore
    patterns and anonymous literals get default priority. The built parser is consulted only for the *names* it gave to anonymous
    terminals (matched by pattern), because token types are compared by name."""
    from .. import alpha
    from . import cfg
    out = []
    named = {}
    # terminals that no rule reachable from the start symbol uses (and that are not ignored) do not take part in lexing
    used = cfg.BNF(grammar).used_terminals() | {n for n in grammar.ignore if not (n.startswith('/') or n.startswith('"'))}
    unused = set()
    for t in grammar.terms:
        if t.name not in used:
            unused.add(t.name)
            continue
        kind, val = t.pattern
        rx = t.regexp()
        named[t.name] = RefTerm(t.name, rx, t.priority if t.priority is not None else 0, _max_width(rx, gflags), len(val), kind == 'str' , gflags, as_bytes)
        out.append(named[t.name])
    # anonymous terminals (inline ignores, literals in rules): find lark's name by pattern
    for lt in lark_instance.terminals:
        if str(lt.name) in named or str(lt.name) in unused:
            continue
        rx = lt.pattern.to_regexp()
        out.append(RefTerm(str(lt.name), rx, 0, _max_width(rx, gflags), len(lt.pattern.value), lt.pattern.type == 'str', gflags, as_bytes))
    return out


def _max_width(regexp, gflags=0):
    from ..alpha import sre_parse
    try:
        return int(sre_parse.parse(regexp, gflags).getwidth()[1])
    except Exception:
        return 0


def order(terms):
    return sorted(terms, key=lambda t: (-t.priority, -t.max_width, -t.patlen, t.name))


def lex(text, terms, ignore=(), allowed=None):
    """Returns (tokens, error_pos): tokens = [(type, value, start, end)] without ignored ones; error_pos None or the first position at
    which no terminal matches. `allowed` (optional) restricts the candidate terminals at each position: callable(pos, tokens)->set."""
    ordered = order(terms)
    strs = [t for t in ordered if t.is_str]
    pos = 0
    out = []
    n = len(text)
    while pos < n:
        chosen = m = None
        cand = ordered
        if allowed is not None:
            ok = allowed(pos, out)
            cand = [t for t in ordered if t.name in ok]
        for t in cand:
            m = t.rx.match(text, pos)
            if m and m.end() > pos:
                chosen = t
                break
        if chosen is None:
            return out, pos
        value = m.group(0)
        typ = chosen.name
        if not chosen.is_str:
            for s in strs:
                if s.priority == chosen.priority and s.rx.fullmatch(value) and (allowed is None or s.name in ok):
                    typ = s.name
                    break
        if typ not in ignore:
            out.append((typ, value, pos, m.end()))
        pos = m.end()
    return out, None
