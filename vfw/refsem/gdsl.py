"""Grammar DSL: written once, *rendered* to Lark syntax for the implementation and *interpreted* directly by the
oracle (refsem.cfg / refsem.shape), so lark's loader/compiler is never part of the oracle.

Items of an alternative:
  T('NAME')          reference to a named terminal (filtered from trees iff NAME starts with '_')
  L('text')          anonymous string literal (filtered unless the rule keeps all tokens)
  N('name')          rule reference ('_name' rules are inlined, '?name' handled on the definition)
  Opt(*items)        ( items )?
  Maybe(*items)      [ items ]      (placeholders when maybe_placeholders is on)
  Star(item) Plus(item) Rep(item, n, m)
  Grp(alt, alt, ...) ( a | b ), every alt a list of items
  Tpl('name', arg, ...)  template instantiation (args are items)
"""


class Item:
    pass


class T(Item):
    def __init__(self, name):
        self.name = name

    def render(self):
        return self.name


class L(Item):
    def __init__(self, text, flags=''):
        self.text = text
        self.flags = flags

    def render(self):
        return '"%s"%s' % (self.text.replace('\\', '\\\\').replace('"', '\\"').replace('\n', '\\n'), self.flags)


class N(Item):
    def __init__(self, name):
        self.name = name

    def render(self):
        return self.name


class Opt(Item):
    def __init__(self, *items):
        self.items = list(items)

    def render(self):
        return '(%s)?' % ' '.join(i.render() for i in self.items)


class Maybe(Item):
    def __init__(self, *alts):
        # Maybe(a, b) is [a b]; Maybe([a], [b, c]) is [a | b c]
        if alts and isinstance(alts[0], list):
            self.alts = [list(a) for a in alts]
        else:
            self.alts = [list(alts)]

    def render(self):
        return '[%s]' % ' | '.join(' '.join(i.render() for i in a) for a in self.alts)


class Star(Item):
    def __init__(self, item):
        self.item = item

    def render(self):
        return _atom(self.item) + '*'


class Plus(Item):
    def __init__(self, item):
        self.item = item

    def render(self):
        return _atom(self.item) + '+'


class Rep(Item):
    def __init__(self, item, n, m=None):
        self.item, self.n, self.m = item, n, (n if m is None else m)

    def render(self):
        if self.n == self.m:
            return '%s~%d' % (_atom(self.item), self.n)
        return '%s~%d..%d' % (_atom(self.item), self.n, self.m)


class Grp(Item):
    def __init__(self, *alts):
        self.alts = [list(a) for a in alts]

    def render(self):
        return '(%s)' % ' | '.join(' '.join(i.render() for i in a) for a in self.alts)


class Tpl(Item):
    def __init__(self, name, *args):
        self.name, self.args = name, list(args)

    def render(self):
        return '%s{%s}' % (self.name, ', '.join(a.render() for a in self.args))


def _atom(item):
    r = item.render()
    if isinstance(item, (T, L, N, Grp, Tpl, Maybe)):
        return r
    return '(%s)' % r


class Alt:
    def __init__(self, items, alias=None):
        self.items = list(items)
        self.alias = alias

    def render(self):
        s = ' '.join(i.render() for i in self.items)
        if self.alias:
            s += ' -> ' + self.alias
        return s


class Rule:
    """name may carry the modifiers '?' and '!' as prefix: '?expr', '!stmt', '?!x'. '_name' is part of the name."""

    def __init__(self, name, alts, priority=None, params=None):
        self.mods = ''
        while name and name[0] in '?!':
            self.mods += name[0]
            name = name[1:]
        self.name = name
        self.alts = [a if isinstance(a, Alt) else Alt(a) for a in alts]
        self.priority = priority
        self.params = params    # template parameters (list of names) or None

    @property
    def expand1(self):
        return '?' in self.mods

    @property
    def keep_all(self):
        return '!' in self.mods

    def render(self):
        head = self.mods + self.name
        if self.params:
            head += '{%s}' % ', '.join(self.params)
        if self.priority is not None:
            head += '.%d' % self.priority
        return '%s: %s' % (head, '\n    | '.join(a.render() for a in self.alts))


class Term:
    """A named terminal. pattern: ('str', text) | ('re', regexp) ; or raw Lark source via src=."""

    def __init__(self, name, pattern=None, priority=None, flags='', src=None):
        self.name = name
        if isinstance(pattern, str):
            pattern = ('str', pattern)
        self.pattern = pattern
        self.priority = priority
        self.flags = flags
        self.src = src

    def render(self):
        head = self.name
        if self.priority is not None:
            head += '.%d' % self.priority
        if self.src is not None:
            return '%s: %s' % (head, self.src)
        kind, val = self.pattern
        if kind == 'str':
            return '%s: %s' % (head, L(val, self.flags).render())
        return '%s: /%s/%s' % (head, val.replace('/', '\\/'), self.flags)

    def regexp(self):
        """Python regexp source of the terminal (oracle side; for 'src' terminals a regexp must be given in pattern)."""
        import re
        kind, val = self.pattern
        body = re.escape(val) if kind == 'str' else val
        if self.flags:
            return '(?%s:%s)' % (self.flags, body)
        return body


class Grammar:
    def __init__(self, rules, terms=(), ignore=(), declare=(), start='start', name=None, header=''):
        self.rules = list(rules)
        self.terms = list(terms)
        self.ignore = list(ignore)
        self.declare = list(declare)
        self.start = start
        self.name = name
        self.header = header
        self.by_name = {r.name: r for r in self.rules}

    def render(self):
        out = []
        if self.header:
            out.append(self.header)
        for r in self.rules:
            out.append(r.render())
        for t in self.terms:
            out.append(t.render())
        for i in self.ignore:
            out.append('%%ignore %s' % i)
        if self.declare:
            out.append('%%declare %s' % ' '.join(self.declare))
        return '\n'.join(out) + '\n'


# Names lark gives to anonymous literals that are usable as token types by a custom lexer.
def anon_name(text):
    """The terminal name lark derives for an anonymous literal made of letters/digits (upper-cased)."""
    if text.isalnum() and text[0].isalpha() and text.upper() == text.upper():
        return text.upper()
    raise ValueError('anonymous literal %r has no predictable name; use a named terminal' % text)
