"""Reference LALR(1): canonical LR(1) item sets, merged by core; shift preference; priority-resolved reduce/reduce.
Textbook construction, deliberately independent of lark's DeRemer-Pennello implementation.

Works on the plain-BNF part of a refsem.cfg.BNF (no helper rules / placeholders: C02 grammars are written in BNF so that the
automaton does not depend on how EBNF operators are expanded)."""

END = '$END'


class LALR:
    def __init__(self, bnf, start=None):
        self.bnf = bnf
        self.start = start or bnf.start
        self.alts = []          # (lhs, syms as tuple of ('t'|'n', name), BAlt)
        for r in bnf.rules.values():
            for a in r.alts:
                syms = tuple((s[0], s[1]) for s in a.syms if s[0] != 'none')
                self.alts.append((r.name, syms, a))
        self.root = ('$root', (('n', self.start), ('t', END)), None)
        self.by_lhs = {}
        for k, (lhs, syms, a) in enumerate(self.alts):
            self.by_lhs.setdefault(lhs, []).append(k)
        self._first()
        self._build()

    # FIRST sets --------------------------------------------------------------------------------------------------
    def _first(self):
        self.nullable = set()
        self.first = {lhs: set() for lhs in self.by_lhs}
        changed = True
        while changed:
            changed = False
            for lhs, syms, _ in self.alts:
                allnull = True
                for kind, name in syms:
                    if kind == 't':
                        if name not in self.first[lhs]:
                            self.first[lhs].add(name)
                            changed = True
                        allnull = False
                        break
                    add = self.first.get(name, set()) - self.first[lhs]
                    if add:
                        self.first[lhs] |= add
                        changed = True
                    if name not in self.nullable:
                        allnull = False
                        break
                if allnull and lhs not in self.nullable:
                    self.nullable.add(lhs)
                    changed = True

    def first_of_seq(self, syms, la):
        out = set()
        for kind, name in syms:
            if kind == 't':
                out.add(name)
                return out
            out |= self.first.get(name, set())
            if name not in self.nullable:
                return out
        out.add(la)
        return out

    # canonical LR(1) ------------------------------------------------------------------------------------------------
    def _syms(self, k):
        return self.root[1] if k == -1 else self.alts[k][1]

    def _closure(self, items):
        items = set(items)
        todo = list(items)
        while todo:
            k, dot, la = todo.pop()
            syms = self._syms(k)
            if dot < len(syms) and syms[dot][0] == 'n':
                for la2 in self.first_of_seq(syms[dot + 1:], la):
                    for k2 in self.by_lhs.get(syms[dot][1], ()):
                        it = (k2, 0, la2)
                        if it not in items:
                            items.add(it)
                            todo.append(it)
        return frozenset(items)

    def _goto(self, state, sym):
        moved = {(k, dot + 1, la) for (k, dot, la) in state if dot < len(self._syms(k)) and self._syms(k)[dot] == sym}
        return self._closure(moved) if moved else None

    def _build(self):
        start = self._closure({(-1, 0, END)})
        lr1 = {start: {}}
        todo = [start]
        while todo:
            st = todo.pop()
            syms = {self._syms(k)[dot] for (k, dot, la) in st if dot < len(self._syms(k))}
            for sym in syms:
                if sym == ('t', END):
                    continue
                nxt = self._goto(st, sym)
                lr1[st][sym] = nxt
                if nxt not in lr1:
                    lr1[nxt] = {}
                    todo.append(nxt)
        # merge by core
        core_of = {st: frozenset((k, dot) for (k, dot, la) in st) for st in lr1}
        self.states = {}       # core -> {'items': {(k,dot): set(la)}, 'trans': {sym: core}}
        for st, trans in lr1.items():
            c = core_of[st]
            m = self.states.setdefault(c, {'items': {}, 'trans': {}})
            for (k, dot, la) in st:
                m['items'].setdefault((k, dot), set()).add(la)
            for sym, nxt in trans.items():
                m['trans'][sym] = core_of[nxt]
        self.start_state = core_of[start]
        # actions
        self.actions = {}
        self.rr_conflicts = []
        self.sr_conflicts = []
        for c, m in self.states.items():
            act = {}
            for sym, nxt in m['trans'].items():
                act[sym[1]] = ('shift', nxt)
            reduces = {}
            for (k, dot), las in m['items'].items():
                if k == -1:
                    if dot == 1:
                        # $root -> start . $END : accept on $END
                        act.setdefault(END, ('accept', None))
                    continue
                if dot == len(self._syms(k)):
                    for la in las:
                        reduces.setdefault(la, set()).add(k)
            for la, ks in reduces.items():
                if len(ks) > 1:
                    pr = sorted(((self.alts[k][2].rule.priority or 0), k) for k in ks)
                    if pr[-1][0] > pr[-2][0]:
                        ks = {pr[-1][1]}
                    else:
                        self.rr_conflicts.append((c, la, sorted(ks)))
                        continue
                (k,) = ks
                if la in act and act[la][0] in ('shift', 'accept'):
                    self.sr_conflicts.append((c, la, k))
                else:
                    act[la] = ('reduce', k)
            self.actions[c] = act

    # simulation -------------------------------------------------------------------------------------------------------
    def terminal_choices(self, state):
        return {name for name, a in self.actions[state].items() if name == END or name.isupper() or not name.islower()} - \
               {name for name in self.actions[state] if name in self.by_lhs}

    def run(self, kinds):
        """Feed tokens one by one. Returns (accepted: bool, error_index or None, choices_after_each_prefix)."""
        stack = [self.start_state]
        choices = [self.terminal_choices(stack[-1])]
        for i, tok in enumerate(list(kinds) + [END]):
            while True:
                act = self.actions[stack[-1]].get(tok)
                if act is None:
                    return False, i, choices
                if act[0] == 'accept':
                    return True, None, choices
                if act[0] == 'shift':
                    stack.append(act[1])
                    break
                lhs, syms, _ = self.alts[act[1]]
                if syms:
                    del stack[-len(syms):]
                stack.append(self.actions[stack[-1]][lhs][1])
            choices.append(self.terminal_choices(stack[-1]))
        return False, len(kinds), choices

    def state_signature(self, c):
        """Kernel-independent description of a state: its core as (lhs, rhs, dot) triples."""
        out = []
        for (k, dot) in c:
            lhs, syms, _ = (self.root if k == -1 else self.alts[k])
            out.append((lhs, tuple(n for _, n in syms), dot))
        return frozenset(out)

    def table(self):
        """{state signature: {symbol: ('shift', target signature) | ('reduce', (lhs, rhs)) }} for table equality checks."""
        out = {}
        for c, act in self.actions.items():
            row = {}
            for name, a in act.items():
                if a[0] == 'shift':
                    row[name] = ('shift', self.state_signature(a[1]))
                elif a[0] == 'reduce':
                    lhs, syms, _ = self.alts[a[1]]
                    row[name] = ('reduce', (lhs, tuple(n for _, n in syms)))
                else:
                    row[name] = ('accept',)
            out[self.state_signature(c)] = row
        return out
