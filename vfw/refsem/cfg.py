"""Reference CFG semantics: trivial EBNF desugaring, least-fixpoint span recogniser, viable prefixes, next-terminal sets,
enumeration of all derivations. Deliberately naive; inputs are short.

BNF form
  BRule(name, inline, expand1, keep_all, priority, user)   user = name of the user-written rule it came from
  BAlt(rule, idx, syms, alias)
  symbols: ('t', term_name, kept: bool, typed: bool) | ('n', rule_name) | ('none', k)
"""
import re

from . import gdsl as g


class CyclicGrammar(Exception):
    pass


class TooMany(Exception):
    pass


class BRule:
    def __init__(self, name, inline, expand1, keep_all, priority, user, helper):
        self.name, self.inline, self.expand1, self.keep_all, self.priority, self.user, self.helper = \
            name, inline, expand1, keep_all, priority, user, helper
        self.alts = []
        self.label = name       # what a tree node of this rule is called: a template instance carries the template's name


class BAlt:
    def __init__(self, rule, idx, syms, alias):
        self.rule, self.idx, self.syms, self.alias = rule, idx, syms, alias

    def __repr__(self):
        return '%s#%d' % (self.rule.name, self.idx)


class BNF:
    def __init__(self, grammar, maybe_placeholders=True, keep_all_tokens=False):
        self.grammar = grammar
        self.maybe_placeholders = maybe_placeholders
        self.keep_all_tokens = keep_all_tokens
        self.rules = {}
        self.terminals = set()
        self.anon = {}      # anonymous literal text -> terminal name
        self._n = 0
        self._named_str = {}
        for t in grammar.terms:
            if t.pattern and t.pattern[0] == 'str' and not t.flags:
                self._named_str.setdefault(t.pattern[1], t.name)
        self._templates = {r.name: r for r in grammar.rules if r.params}
        self._instances = {}
        for r in grammar.rules:
            if r.params:
                continue
            self._add_user_rule(r, r.name, {})
        self.start = grammar.start

    # -- desugaring ----------------------------------------------------------------------------------------
    def _add_user_rule(self, r, name, subst):
        br = BRule(name, name.startswith('_'), r.expand1, r.keep_all or self.keep_all_tokens, r.priority or 0, name, False)
        self.rules[name] = br
        for idx, a in enumerate(r.alts):
            syms = self._seq(a.items, br, subst)
            br.alts.append(BAlt(br, idx, syms, a.alias))
        return br

    def _helper(self, owner):
        self._n += 1
        h = BRule('__h%d' % self._n, True, False, owner.keep_all, 0, owner.user, True)
        self.rules[h.name] = h
        return h

    def _seq(self, items, owner, subst):
        out = []
        for it in items:
            out.extend(self._item(it, owner, subst))
        return out

    def _term_sym(self, name, kept, typed=True):
        self.terminals.add(name)
        return ('t', name, kept, typed)

    def _item(self, it, owner, subst):
        keep = owner.keep_all
        if isinstance(it, g.N) and it.name in subst:
            return self._item(subst[it.name], owner, {})
        if isinstance(it, g.T) and it.name in subst:
            return self._item(subst[it.name], owner, {})
        if isinstance(it, g.T):
            return [self._term_sym(it.name, keep or not it.name.startswith('_'))]
        if isinstance(it, g.L):
            name = self._named_str.get(it.text) if not it.flags else None
            typed = True
            if name is None:
                try:
                    name = g.anon_name(it.text)
                    if it.flags:
                        raise ValueError
                except ValueError:
                    name = '__LIT_%s%s' % (it.text, it.flags)
                    typed = False
                self.anon[(it.text, it.flags)] = name
            return [self._term_sym(name, keep, typed)]
        if isinstance(it, g.N):
            return [('n', it.name)]
        if isinstance(it, g.Tpl):
            args = [subst.get(getattr(a, 'name', None), a) for a in it.args]
            key = (it.name, tuple(a.render() for a in args))
            if key not in self._instances:
                tpl = self._templates[it.name]
                iname = '%s{%s}' % (it.name, ','.join(a.render() for a in args))     # one instance per distinct argument *text*
                self._instances[key] = iname
                self._add_user_rule(tpl, iname, dict(zip(tpl.params, args))).label = tpl.name
            return [('n', self._instances[key])]
        if isinstance(it, g.Grp):
            h = self._helper(owner)
            for idx, alt in enumerate(it.alts):
                h.alts.append(BAlt(h, idx, self._seq(alt, owner, subst), None))
            return [('n', h.name)]
        if isinstance(it, g.Opt):
            h = self._helper(owner)
            h.alts.append(BAlt(h, 0, self._seq(it.items, owner, subst), None))
            h.alts.append(BAlt(h, 1, [], None))
            return [('n', h.name)]
        if isinstance(it, g.Maybe):
            h = self._helper(owner)
            size = 0
            for idx, alt in enumerate(it.alts):
                syms = self._seq(alt, owner, subst)
                h.alts.append(BAlt(h, idx, syms, None))
                size = max(size, self._kept_size(syms))
            empty = [('none', size)] if (self.maybe_placeholders and size) else []
            h.alts.append(BAlt(h, len(it.alts), empty, None))
            return [('n', h.name)]
        if isinstance(it, g.Star):
            h = self._helper(owner)
            inner = self._item(it.item, owner, subst)
            h.alts.append(BAlt(h, 0, [], None))
            h.alts.append(BAlt(h, 1, [('n', h.name)] + inner, None))
            return [('n', h.name)]
        if isinstance(it, g.Plus):
            h = self._helper(owner)
            inner = self._item(it.item, owner, subst)
            h.alts.append(BAlt(h, 0, list(inner), None))
            h.alts.append(BAlt(h, 1, [('n', h.name)] + inner, None))
            return [('n', h.name)]
        if isinstance(it, g.Rep):
            h = self._helper(owner)
            inner = self._item(it.item, owner, subst)
            for idx, k in enumerate(range(it.n, it.m + 1)):
                h.alts.append(BAlt(h, idx, list(inner) * k, None))
            return [('n', h.name)]
        raise TypeError(it)

    def _arg_name(self, a):
        if isinstance(a, (g.T, g.N)):
            return a.name
        if isinstance(a, g.L):
            return self._item(a, BRule('x', False, False, False, 0, 'x', True), {})[0][1]
        return a.render()

    def _kept_size(self, syms):
        """Number of symbols of an alternative that stay visible as (single) children: kept tokens and non-inlined rules
        (the documented sizing of an unmatched [..]); nested placeholders count as their size."""
        n = 0
        for s in syms:
            if s[0] == 't':
                n += 1 if s[2] else 0
            elif s[0] == 'none':
                n += s[1]
            elif s[0] == 'n':
                r = self.rules.get(s[1])
                if r is not None and r.helper:
                    n += max((self._kept_size(a.syms) for a in r.alts), default=0) if not self._recursive(r) else 0
                elif not s[1].startswith('_'):
                    n += 1
        return n

    def _recursive(self, r):
        return any(s == ('n', r.name) for a in r.alts for s in a.syms)

    # -- analysis ------------------------------------------------------------------------------------------
    def used_terminals(self):
        """Names of the terminals that occur in rules reachable from the start symbol (lark compiles only those into a lexer)."""
        seen, todo, used = set(), [self.start], set()
        while todo:
            n = todo.pop()
            if n in seen or n not in self.rules:
                continue
            seen.add(n)
            for a in self.rules[n].alts:
                for sym in a.syms:
                    if sym[0] == 'n':
                        todo.append(sym[1])
                    elif sym[0] == 't':
                        used.add(sym[1])
        return used

    def productive(self):
        prod = set()
        changed = True
        while changed:
            changed = False
            for r in self.rules.values():
                if r.name in prod:
                    continue
                for a in r.alts:
                    if all(s[0] != 'n' or s[1] in prod for s in a.syms):
                        prod.add(r.name)
                        changed = True
                        break
        return prod

    def nullable(self):
        nul = set()
        changed = True
        while changed:
            changed = False
            for r in self.rules.values():
                if r.name in nul:
                    continue
                for a in r.alts:
                    if all(s[0] == 'none' or (s[0] == 'n' and s[1] in nul) for s in a.syms):
                        nul.add(r.name)
                        changed = True
                        break
        return nul

    def is_cyclic(self):
        """True iff some non-terminal derives itself (A =>+ A)."""
        nul = self.nullable()
        unit = {r: set() for r in self.rules}
        for r in self.rules.values():
            for a in r.alts:
                for k, s in enumerate(a.syms):
                    if s[0] != 'n':
                        continue
                    rest = a.syms[:k] + a.syms[k + 1:]
                    if all(x[0] == 'none' or (x[0] == 'n' and x[1] in nul) for x in rest):
                        unit[r.name].add(s[1])
        for r in self.rules:
            seen, todo = set(), list(unit[r])
            while todo:
                x = todo.pop()
                if x == r:
                    return True
                if x in seen:
                    continue
                seen.add(x)
                todo.extend(unit.get(x, ()))
        return False


# ---------------------------------------------------------------------------------------------------------------
# Inputs

class TokenInput:
    """A sequence of token kinds."""

    def __init__(self, kinds, value_of=None):
        self.kinds = list(kinds)
        self.n = len(self.kinds)
        self.value_of = value_of

    def ends(self, term, i):
        if i < self.n and self.kinds[i] == term:
            return [(i, i + 1)]
        return []

    def final_ok(self, j):
        return j == self.n

    def value(self, i, j):
        k = self.kinds[i]
        return self.value_of[k] if self.value_of else k.lower()


class TextInput:
    """Scannerless text. mode 'complete': a terminal matches every substring in its regular language; mode 'longest': a
    terminal occurrence is its longest match at that position; 'lark_dynamic' / 'lark_complete': the implementation's
    approximations through re's preferred match (used only to attribute a deviation to the recorded finding).
    Ignored terminals (greedy matches) may precede any token and follow the last one."""

    def __init__(self, text, regexps, ignore=(), mode='complete', flags=0):
        self.text = text
        self.n = len(text)
        self.mode = mode
        self.rx = {k: (re.compile(v, flags) if isinstance(v, (str, bytes)) else v) for k, v in regexps.items()}
        self.ignore = list(ignore)
        self._gap = {}
        self._ends = {}

    def gap_closure(self, i):
        if i not in self._gap:
            seen, todo = {i}, [i]
            while todo:
                p = todo.pop()
                for x in self.ignore:
                    m = self.rx[x].match(self.text, p)
                    if m and m.end() > p and m.end() not in seen:
                        seen.add(m.end())
                        todo.append(m.end())
            self._gap[i] = sorted(seen)
        return self._gap[i]

    def ends(self, term, i):
        key = (term, i)
        if key not in self._ends:
            out = []
            rx = self.rx[term]
            for i2 in self.gap_closure(i):
                if self.mode == 'longest':
                    # the terminal's longest match at this position (as the property states it)
                    best = None
                    for j in range(self.n, i2, -1):
                        if rx.fullmatch(self.text, i2, j):
                            best = j
                            break
                    if best is not None:
                        out.append((i2, best))
                elif self.mode == 'lark_dynamic':
                    # what the implementation takes for "longest": re's preferred match
                    m = rx.match(self.text, i2)
                    if m and m.end() > i2:
                        out.append((i2, m.end()))
                elif self.mode == 'lark_complete':
                    # the implementation's enumeration: the preferred match and the preferred matches of its proper prefixes
                    m = rx.match(self.text, i2)
                    if m and m.end() > i2:
                        ends = {m.end()}
                        s0 = m.group(0)
                        for j in range(1, len(s0)):
                            m2 = rx.match(s0[:-j])
                            if m2 and m2.end() > 0:
                                ends.add(i2 + m2.end())
                        out.extend((i2, e) for e in sorted(ends))
                else:
                    for j in range(i2 + 1, self.n + 1):
                        if rx.fullmatch(self.text, i2, j):
                            out.append((i2, j))
            self._ends[key] = out
        return self._ends[key]

    def final_ok(self, j):
        return self.n in self.gap_closure(j)

    def value(self, i, j):
        return self.text[i:j]


# ---------------------------------------------------------------------------------------------------------------
# Recognition

class Recognizer:
    def __init__(self, bnf, inp):
        self.bnf, self.inp = bnf, inp
        n = inp.n
        self.E = {r: [set() for _ in range(n + 1)] for r in bnf.rules}
        changed = True
        while changed:
            changed = False
            for r in bnf.rules.values():
                for i in range(n + 1):
                    cur = self.E[r.name][i]
                    for a in r.alts:
                        for j in self.seq_ends(a.syms, i):
                            if j not in cur:
                                cur.add(j)
                                changed = True

    def sym_ends(self, s, i):
        if s[0] == 't':
            return {j for (_, j) in self.inp.ends(s[1], i)}
        if s[0] == 'none':
            return {i}
        return self.E[s[1]][i]

    def seq_ends(self, syms, i):
        cur = {i}
        for s in syms:
            nxt = set()
            for p in cur:
                nxt |= self.sym_ends(s, p)
            cur = nxt
            if not cur:
                break
        return cur

    def member(self, start=None):
        start = start or self.bnf.start
        return any(self.inp.final_ok(j) for j in self.E[start][0])

    # -- derivations ------------------------------------------------------------------------------------------
    def trees(self, name, i, j, limit=20000, max_repeat=1):
        """All derivation trees of non-terminal `name` over [i, j). Node: ('n', BAlt, [children], i, j); token: ('t', term, kept,
        typed, i0, j) ; placeholder: ('none', k). Raises CyclicGrammar if a derivation cycle is met and max_repeat == 1 is
        exceeded with strict=True semantics (see derivations())."""
        self._count = 0
        self._limit = limit
        return self._trees(name, i, j, {}, max_repeat)

    def _trees(self, name, i, j, onpath, max_repeat):
        key = (name, i, j)
        if onpath.get(key, 0) >= max_repeat:
            self._cycle_hit = True
            return []
        onpath[key] = onpath.get(key, 0) + 1
        out = []
        for a in self.bnf.rules[name].alts:
            for kids in self._seq_trees(a.syms, 0, i, j, onpath, max_repeat):
                out.append(('n', a, kids, i, j))
                self._count += 1
                if self._count > self._limit:
                    raise TooMany()
        onpath[key] -= 1
        return out

    def _seq_trees(self, syms, k, i, j, onpath, max_repeat):
        if k == len(syms):
            if i == j:
                yield []
            return
        s = syms[k]
        rest = syms[k + 1:]
        if s[0] == 'none':
            for tail in self._seq_trees(syms, k + 1, i, j, onpath, max_repeat):
                yield [('none', s[1])] + tail
            return
        if s[0] == 't':
            for (i0, e) in self.inp.ends(s[1], i):
                if e <= j and j in self.seq_ends(rest, e):
                    for tail in self._seq_trees(syms, k + 1, e, j, onpath, max_repeat):
                        yield [('t', s[1], s[2], s[3], i0, e)] + tail
            return
        for e in sorted(self.E[s[1]][i]):
            if e <= j and j in self.seq_ends(rest, e):
                subs = self._trees(s[1], i, e, onpath, max_repeat)
                if not subs:
                    continue
                tails = list(self._seq_trees(syms, k + 1, e, j, onpath, max_repeat))
                for sub in subs:
                    for tail in tails:
                        yield [sub] + tail

    def derivations(self, start=None, limit=20000, max_repeat=1):
        """All derivation trees of the whole input from `start` (for text inputs: with trailing ignorable text).
        Sets self.cycle_hit when a (symbol, span) repetition was cut (cyclic grammar)."""
        start = start or self.bnf.start
        self._cycle_hit = False
        out = []
        for j in sorted(self.E[start][0]):
            if self.inp.final_ok(j):
                out.extend(self.trees(start, 0, j, limit, max_repeat))
        self.cycle_hit = self._cycle_hit
        return out


def text_regexps(grammar, bnf, as_bytes=False):
    """Regexp source per terminal name (named terminals, anonymous literals) for TextInput."""
    out = {}
    for t in grammar.terms:
        out[t.name] = t.regexp()
    for (text, flags), name in bnf.anon.items():
        body = re.escape(text)
        out[name] = '(?%s:%s)' % (flags, body) if flags else body
    if as_bytes:
        out = {k: v.encode('utf-8') for k, v in out.items()}
    return out


def member(bnf, inp, start=None):
    return Recognizer(bnf, inp).member(start)


# ---------------------------------------------------------------------------------------------------------------
# Viable prefixes (token level)

def viable_prefix(bnf, kinds, start=None):
    """True iff some (possibly empty) continuation makes `kinds` a sentence. Unproductive symbols never help."""
    start = start or bnf.start
    inp = TokenInput(kinds)
    rec = Recognizer(bnf, inp)
    n = inp.n
    prod = bnf.productive()
    if start not in prod:
        return False

    def sym_prod(s):
        return s[0] != 'n' or s[1] in prod

    P = {r: [False] * (n + 1) for r in bnf.rules}
    changed = True
    while changed:
        changed = False
        for r in bnf.rules.values():
            if r.name not in prod:
                continue
            for i in range(n + 1):
                if P[r.name][i]:
                    continue
                ok = False
                for a in r.alts:
                    if not all(sym_prod(s) for s in a.syms):
                        continue
                    if not a.syms or all(s[0] == 'none' for s in a.syms):
                        ok = (i == n)
                        if ok:
                            break
                        continue
                    cur = {i}
                    for s in a.syms:
                        # can the input end before or inside symbol s (everything after it lies in the continuation)?
                        for p in cur:
                            if p == n:
                                ok = True
                            elif s[0] == 't':
                                ok = ok or (p == n - 1 and inp.kinds[p] == s[1])
                            elif s[0] == 'n':
                                ok = ok or P[s[1]][p]
                        if ok:
                            break
                        nxt = set()
                        for p in cur:
                            nxt |= rec.sym_ends(s, p)
                        cur = nxt
                        if not cur:
                            break
                    else:
                        ok = ok or (n in cur)
                    if ok:
                        break
                if ok:
                    P[r.name][i] = True
                    changed = True
    return P[start][0]


def next_terms(bnf, kinds, start=None, terminals=None):
    """Terminals t such that kinds+[t] is still a viable prefix, plus '$END' when kinds is a sentence."""
    terminals = sorted(terminals if terminals is not None else bnf.terminals)
    out = {t for t in terminals if viable_prefix(bnf, list(kinds) + [t], start)}
    if member(bnf, TokenInput(kinds), start):
        out.add('$END')
    return out


def first_error_index(bnf, kinds, start=None):
    """Least k such that kinds[:k+1] is not a viable prefix; len(kinds) if every prefix is viable (then the input is either a
    sentence or a proper prefix of one)."""
    for k in range(len(kinds)):
        if not viable_prefix(bnf, kinds[:k + 1], start):
            return k
    return len(kinds)


def priority_of(tree, term_priority=None):
    """Total priority of a derivation: sum of rule priorities (+ terminal priorities when given)."""
    if tree[0] == 'n':
        return tree[1].rule.priority + sum(priority_of(c, term_priority) for c in tree[2])
    if tree[0] == 't' and term_priority:
        return term_priority.get(tree[1], 0)
    return 0


def is_plain(bnf):
    """No shaping feature in play: every rule is a visible node, every token kept, no alias, no placeholder."""
    for r in bnf.rules.values():
        if r.inline or r.expand1 or r.helper:
            return False
        for a in r.alts:
            if a.alias or any(s[0] == 'none' or (s[0] == 't' and not s[2]) for s in a.syms):
                return False
    return True


def valid_tree_ends(bnf, tree, name, kinds, i):
    """For a plain grammar: end positions j such that `tree` (shape tuples) is a derivation tree of non-terminal `name` over
    kinds[i:j]. Direct check of one tree - used for cyclic grammars, whose derivation sets are infinite."""
    if not isinstance(tree, tuple) or not tree or tree[0] != name or hasattr(tree, '_is_tok'):
        return set()
    kids = tree[1:]
    out = set()
    for a in bnf.rules[name].alts:
        if len(a.syms) != len(kids):
            continue
        cur = {i}
        for s, c in zip(a.syms, kids):
            nxt = set()
            for p in cur:
                if s[0] == 't':
                    if type(c).__name__ == '_tok' and c[0] == s[1] and p < len(kinds) and kinds[p] == s[1]:
                        nxt.add(p + 1)
                else:
                    if type(c).__name__ != '_tok' and c is not None:
                        nxt |= valid_tree_ends(bnf, c, s[1], kinds, p)
            cur = nxt
            if not cur:
                break
        out |= cur
    return out


def is_derivation_tree(bnf, tree, kinds, start=None):
    return len(kinds) in valid_tree_ends(bnf, tree, start or bnf.start, kinds, 0)


# ---------------------------------------------------------------------------------------------------------------------------
# Viable prefixes and next-terminal sets for any input kind (token list or scannerless text): the input must end at a token
# boundary (possibly followed by ignorable text); everything after it lies in the continuation.

def _first_terminals(bnf, prod, nul):
    first = {r: set() for r in bnf.rules}
    changed = True
    while changed:
        changed = False
        for r in bnf.rules.values():
            for a in r.alts:
                if not all(s[0] != 'n' or s[1] in prod for s in a.syms):
                    continue
                for s in a.syms:
                    if s[0] == 'none':
                        continue
                    if s[0] == 't':
                        if s[1] not in first[r.name]:
                            first[r.name].add(s[1])
                            changed = True
                        break
                    add = first[s[1]] - first[r.name]
                    if add:
                        first[r.name] |= add
                        changed = True
                    if s[1] not in nul:
                        break
    return first


class Frontier:
    """viable(): is the input a (token-complete) viable prefix?  next_terms(): terminals that can legally come next (+ '$END')."""

    def __init__(self, bnf, inp, start=None):
        self.bnf, self.inp = bnf, inp
        self.start = start or bnf.start
        self.rec = Recognizer(bnf, inp)
        self.prod = bnf.productive()
        self.nul = bnf.nullable()
        self.first = _first_terminals(bnf, self.prod, self.nul)
        n = inp.n
        self.N = {r: [None] * (n + 1) for r in bnf.rules}      # None = input cannot end inside/before r from i ; else set of next terminals
        changed = True
        while changed:
            changed = False
            for r in bnf.rules.values():
                if r.name not in self.prod:
                    continue
                for i in range(n + 1):
                    new = self._rule_frontier(r, i)
                    old = self.N[r.name][i]
                    if new is not None and (old is None or not new <= old):
                        self.N[r.name][i] = (old or set()) | new
                        changed = True

    def _seq_first(self, syms):
        out = set()
        for s in syms:
            if s[0] == 'none':
                continue
            if s[0] == 't':
                out.add(s[1])
                return out, False
            out |= self.first[s[1]]
            if s[1] not in self.nul:
                return out, False
        return out, True

    def _rule_frontier(self, r, i):
        res = None
        for a in r.alts:
            if not all(s[0] != 'n' or s[1] in self.prod for s in a.syms):
                continue
            cur = {i}
            for k, s in enumerate(a.syms):
                for p in cur:
                    if self.inp.final_ok(p):
                        # the input ends here: the rest of the alternative lies in the continuation
                        f, _ = self._seq_first(a.syms[k:])
                        res = (res or set()) | f
                    if s[0] == 'n' and self.N[s[1]][p] is not None:
                        res = (res or set()) | self.N[s[1]][p]
                cur = set().union(*[self.rec.sym_ends(s, p) for p in cur]) if cur else set()
                if not cur:
                    break
            else:
                if any(self.inp.final_ok(e) for e in cur):
                    res = res if res is not None else set()
        return res

    def viable(self):
        return self.start in self.prod and self.N[self.start][0] is not None

    def next_terms(self):
        """Terminals that can follow the (token-complete) input; '$END' if it is a sentence. Terminals reachable only after the end of
        a nullable tail are included through the enclosing alternatives."""
        if not self.viable():
            return set()
        out = set(self._closure_next())
        if self.rec.member(self.start):
            out.add('$END')
        return out

    def _closure_next(self):
        # N already holds, for every way the input can end inside the start symbol, the first terminals of what must follow inside
        # that alternative; what may follow a *completed* nullable-suffix alternative is collected here by walking up: handled by
        # _rule_frontier through `final_ok(p)` checks at every later symbol position of enclosing alternatives.
        return self.N[self.start][0]
