"""Documented tree shaping applied to a derivation tree of refsem.cfg.

Shaped values are nested tuples: (label, child, ...) for trees, (type_or_None, value) for tokens (type None = the name lark
gives the anonymous literal is not documented, compare the value only), None for a [..] placeholder."""


def shape(node, inp):
    """Returns the list of values this derivation node contributes to its parent (one tree, or spliced children)."""
    kind = node[0]
    if kind == 't':
        _, term, kept, typed, i0, j = node
        if not kept:
            return []
        return [_tok(term if typed else None, inp.value(i0, j))]
    if kind == 'none':
        return [None] * node[1]
    _, alt, children, i, j = node
    kids = []
    for c in children:
        kids.extend(shape(c, inp))
    rule = alt.rule
    if rule.inline:
        return kids
    if rule.expand1 and not alt.alias and len(kids) == 1:
        return [kids[0]]
    return [(alt.alias or rule.label,) + tuple(kids)]


class _tok(tuple):
    """Token value; distinguishable from a tree tuple."""
    def __new__(cls, typ, val):
        return tuple.__new__(cls, (typ, val))


def shape_root(node, inp):
    out = shape(node, inp)
    if len(out) != 1:
        return ('<spliced-root>',) + tuple(out)
    return out[0]


def unshaped(node, inp):
    """The derivation itself as a tree: every rule a node (no inlining, no ?-collapse; a node is named by its alternative's alias,
    else by its rule, as the forest transformers name their callbacks), every token kept."""
    kind = node[0]
    if kind == 't':
        _, term, kept, typed, i0, j = node
        return _tok(term if typed else None, inp.value(i0, j))
    if kind == 'none':
        return None
    _, alt, children, i, j = node
    return (alt.alias or alt.rule.label,) + tuple(unshaped(c, inp) for c in children if c[0] != 'none')


def of_lark(t):
    """lark Tree/Token -> the same tuple representation."""
    from lark import Tree, Token
    if isinstance(t, Tree):
        return (str(t.data),) + tuple(of_lark(c) for c in t.children)
    if isinstance(t, Token):
        return _tok(str(t.type), t.value if isinstance(t.value, (str, bytes)) else str(t))
    if t is None:
        return None
    return ('<foreign>', repr(t))


def same(oracle, actual):
    """Structural equality where an oracle token type None matches any actual type."""
    if isinstance(oracle, _tok) or isinstance(actual, _tok):
        if not (isinstance(oracle, _tok) and isinstance(actual, _tok)):
            return False
        return (oracle[0] is None or oracle[0] == actual[0]) and oracle[1] == actual[1]
    if oracle is None or actual is None:
        return oracle is None and actual is None
    if len(oracle) != len(actual) or oracle[0] != actual[0]:
        return False
    return all(same(a, b) for a, b in zip(oracle[1:], actual[1:]))


def erase_types(t):
    """Canonical form with untyped tokens erased to value-only (for set comparison when some oracle tokens are untyped)."""
    if isinstance(t, _tok):
        return ('<tok>', t[1])
    if t is None:
        return None
    return (t[0],) + tuple(erase_types(c) for c in t[1:])


# ---------------------------------------------------------------------------------------------------------------------
# Shaping with source spans (propagate_positions oracle)

class _node(tuple):
    """(label, span, children): span = (start, end) offsets of the first/last token the rule matched (filtered ones included),
    or None when the rule matched no token."""
    def __new__(cls, label, span, kids):
        return tuple.__new__(cls, (label, span, tuple(kids)))


def yield_span(node):
    kind = node[0]
    if kind == 't':
        return (node[4], node[5])
    if kind == 'none':
        return None
    lo = hi = None
    for c in node[2]:
        s = yield_span(c)
        if s is None:
            continue
        lo = s[0] if lo is None else min(lo, s[0])
        hi = s[1] if hi is None else max(hi, s[1])
    return None if lo is None else (lo, hi)


def lark_extent(node):
    """The extent lark's PropagatePositions can see for a derivation node: like yield_span, except that a ?rule alternative which
    collapses to a Token hands only that token upwards (a Token has no container fields), so the filtered tokens around it are lost
    for every ancestor that begins or ends with it. Used to *identify* that recorded finding, never as the oracle."""
    kind = node[0]
    if kind == 't':
        return (node[4], node[5])
    if kind == 'none':
        return None
    _, alt, children, i, j = node
    rule = alt.rule
    if rule.expand1 and not alt.alias and not rule.inline:
        kids = []
        for c in children:
            kids.extend(shape_spans(c, None))
        if len(kids) == 1:
            k = kids[0]
            if k is None:
                return None
            if isinstance(k, tuple) and k and k[0] == 'tok':
                return k[2]
    lo = hi = None
    for c in children:
        s = lark_extent(c)
        if s is None:
            continue
        lo = s[0] if lo is None else min(lo, s[0])
        hi = s[1] if hi is None else max(hi, s[1])
    return None if lo is None else (lo, hi)


def shape_spans(node, inp, extent=yield_span):
    kind = node[0]
    if kind == 't':
        _, term, kept, typed, i0, j = node
        if not kept:
            return []
        return [('tok', term if typed else None, (i0, j))]
    if kind == 'none':
        return [None] * node[1]
    _, alt, children, i, j = node
    kids = []
    for c in children:
        kids.extend(shape_spans(c, inp, extent))
    rule = alt.rule
    if rule.inline:
        return kids
    if rule.expand1 and not alt.alias and len(kids) == 1:
        return [kids[0]]
    return [_node(alt.alias or rule.label, extent(node), kids)]


def expand_ambig(t):
    """All unambiguous trees encoded by a lark tree with _ambig nodes (each _ambig replaced by one of its alternatives)."""
    from lark import Tree
    import itertools
    if not isinstance(t, Tree):
        return [t]
    if t.data == '_ambig':
        out = []
        for c in t.children:
            out.extend(expand_ambig(c))
        return out
    lists = [expand_ambig(c) for c in t.children]
    return [Tree(t.data, list(kids)) for kids in itertools.product(*lists)]
